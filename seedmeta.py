#!/usr/bin/env python3
"""usage: seedmeta.py <id> <caught|missed|pending> <detected_by / reason> [breaks text]"""
import json, sys, os
sid, res, why = sys.argv[1], sys.argv[2], sys.argv[3]
d = '/verif/seeded/' + sid
p = d + '/meta.json'
m = json.load(open(p)) if os.path.exists(p) else {}
notes = open(d + '/notes.txt').read().split('\n') if os.path.exists(d + '/notes.txt') else []
m.setdefault('id', sid)
m.setdefault('property', sid.split('-')[0])
if len(sys.argv) > 4:
    m['breaks'] = sys.argv[4]
m.setdefault('breaks', ' '.join(x.strip() for x in notes[1:4]))
m['confirmed_by'] = 'seedconfirm.sh in a scratch clone: demo passes on the clean tree, fails with patch.diff applied, existing package tests and go build pass with it'
m['check_result'] = res
m['detected_by'] = why
m['ran'] = 'seedeval.sh %s patch.diff (git apply to /repo, ./check %s quick, git checkout)' % (m['property'], m['property'])
json.dump(m, open(p, 'w'), indent=1)
