#!/usr/bin/env python3
"""Regenerates the B.2 table (from MANIFEST.json level texts) and the B.4 table (from seeded/*/meta.json)
inside DESIGN.md. The prose around the tables is kept; the counts in the first B.4 paragraph are rewritten."""
import json, glob, re, os
D = '/verif/DESIGN.md'
s = open(D).read()
m = json.load(open('/verif/MANIFEST.json'))
lines = s.split('\n')
# ---- B.2
txt = {c['property_id']: c['level_claimed']['text'] for c in m['checks']}
out = []
inb2 = False
for ln in lines:
    if ln.startswith('### B.2'):
        inb2 = True
    elif ln.startswith('### B.3'):
        inb2 = False
    mm = re.match(r'^\| (C\d\d) \| (.*) \| ([^|]*) \|$', ln) if inb2 else None
    if mm and mm.group(1) in txt:
        ln = '| %s | %s | %s |' % (mm.group(1), txt[mm.group(1)].replace('|', '/'), mm.group(3))
    out.append(ln)
lines = out
# ---- B.4
metas = []
for p in sorted(glob.glob('/verif/seeded/*/meta.json')):
    metas.append(json.load(open(p)))
rows = []
for x in metas:
    res = x.get('check_result', '?')
    det = (x.get('detected_by') or x.get('reason') or '').replace('|', '/').replace('\n', ' ')
    rows.append('| %s | %s | %s | %s |' % (x['id'], x['property'], res, det))
ncaught = sum(1 for x in metas if x.get('check_result') == 'caught')
nmiss = sum(1 for x in metas if x.get('check_result') == 'missed')
KW = ('after', 'added', 'missed before', 'put under contract', 'extended', 'strengthen')
nlater = sum(1 for x in metas if x.get('check_result') == 'caught' and any(k in (x.get('detected_by') or '') for k in KW))
s2 = '\n'.join(lines)
i = s2.index('### B.4')
j = s2.index('\n## Changes', i)
blk = s2[i:j]
k0 = blk.index('| seeded change | property | result |')
head = blk[:k0]
head = re.sub(r'^\d+ changes confirmed over \w+ rounds', '%d changes confirmed over eight rounds' % len(metas), head.split('\n', 2)[2], count=1, flags=re.M) if False else head
head = re.sub(r'\n\d+ changes confirmed over \w+ rounds', '\n%d changes confirmed over eight rounds' % len(metas), head, count=1)
head = re.sub(r'On the tree as it is now \d+ are\ncaught by a quick check on the changed tree and \d+ are missed',
              'On the tree as it is now %d are\ncaught by a quick check on the changed tree and %d are missed' % (ncaught, nmiss), head, count=1)
head = re.sub(r'table\. \d+ of the caught ones', 'table. %d of the caught ones' % nlater, head, count=1)
tbl = '| seeded change | property | result | detected by / reason |\n|---|---|---|---|\n' + '\n'.join(rows) + '\n'
s2 = s2[:i] + head + tbl + s2[j:]
open(D, 'w').write(s2)
print(len(metas), ncaught, nmiss, nlater)
