package payload

import (
	"testing"

	"github.com/nspcc-dev/neo-go/pkg/core/block"
	"github.com/nspcc-dev/neo-go/pkg/io"
)

func TestVerifProbeMerkle(t *testing.T) {
	h := &block.Header{}
	h.Script.InvocationScript = []byte{1}
	h.Script.VerificationScript = []byte{2}
	w := io.NewBufBinWriter()
	h.EncodeBinary(w.BinWriter)
	w.WriteVarUint(0xffffffffffffffff) // tx count 2^64-1
	w.WriteVarUint(0xffffffffffffffff)
	w.WriteBytes(make([]byte, 32))
	w.WriteVarBytes([]byte{1})
	func() {
		defer func() {
			if r := recover(); r != nil {
				t.Errorf("FAILING-INPUT MerkleBlock.DecodeBinary panicked: %v", r)
			}
		}()
		var m MerkleBlock
		r := io.NewBinReaderFromBuf(w.Bytes())
		m.DecodeBinary(r)
		t.Logf("err=%v", r.Err)
	}()
}
