package mempool

// Witness for finding D4 (property C08): a conflicting transaction sponsored by ANOTHER
// notary depositor was subtracted from this depositor's fee sum, so the pool accepted a
// transaction whose payer cannot cover its pooled fees (fee sum above balance).
// Run with: go test -overlay (see /verif/findings/README) -run TestVerifD4 ./pkg/core/mempool/

import (
	"testing"

	"github.com/nspcc-dev/neo-go/pkg/core/native/nativehashes"
	"github.com/nspcc-dev/neo-go/pkg/core/transaction"
	"github.com/nspcc-dev/neo-go/pkg/util"
)

func TestVerifD4(t *testing.T) {
	depA := util.Uint160{1}
	depB := util.Uint160{2}
	fs := &FeerStub{notaryBalance: 10}
	mp := New(10, false, nil)
	mk := func(dep util.Uint160, netFee int64, nonce uint32, attrs ...transaction.Attribute) *transaction.Transaction {
		tx := transaction.New([]byte{1}, 0)
		tx.Nonce = nonce
		tx.NetworkFee = netFee
		tx.Signers = []transaction.Signer{{Account: nativehashes.Notary}, {Account: dep}}
		tx.Attributes = attrs
		return tx
	}
	a1 := mk(depA, 7, 1) // depositor A: 7 of 10 used
	if err := mp.Add(a1, fs); err != nil {
		t.Fatal(err)
	}
	b1 := mk(depB, 3, 2) // depositor B (other payer), shares the Notary signer with everyone
	if err := mp.Add(b1, fs); err != nil {
		t.Fatal(err)
	}
	// A's new transaction conflicts with B's one; B's fee must not be credited to A.
	a2 := mk(depA, 6, 3, transaction.Attribute{Type: transaction.ConflictsT, Value: &transaction.Conflicts{Hash: b1.Hash()}})
	err := mp.Add(a2, fs)
	pa := payer{primary: nativehashes.Notary, secondary: depA}
	f := mp.fees[pa]
	if err == nil && f.feeSum.Cmp(&f.balance) > 0 {
		t.Fatalf("FAILING-INPUT depositor A pooled fee sum %s exceeds its balance %s", f.feeSum.String(), f.balance.String())
	}
}
