package mempool

// Witness for finding D5 (property C08, "an addition that fails leaves the pool unchanged"):
// a pool at capacity rejected a low-priority OracleResponse transaction with ErrOOM but kept
// oracleResp[id] pointing at it; the next response with that id dereferenced a nil map entry.

import (
	"errors"
	"testing"

	"github.com/nspcc-dev/neo-go/pkg/core/transaction"
	"github.com/nspcc-dev/neo-go/pkg/util"
)

func TestVerifD5(t *testing.T) {
	fs := &FeerStub{balance: 1000000}
	mp := New(1, false, nil)
	mk := func(netFee int64, nonce uint32, attrs ...transaction.Attribute) *transaction.Transaction {
		tx := transaction.New([]byte{1}, 0)
		tx.Nonce = nonce
		tx.NetworkFee = netFee
		tx.Signers = []transaction.Signer{{Account: util.Uint160{1, 2, 3}}}
		tx.Attributes = attrs
		return tx
	}
	if err := mp.Add(mk(1000, 1), fs); err != nil {
		t.Fatal(err)
	}
	orc := func(fee int64, nonce uint32) *transaction.Transaction {
		return mk(fee, nonce, transaction.Attribute{Type: transaction.OracleResponseT, Value: &transaction.OracleResponse{ID: 7}})
	}
	err := mp.Add(orc(1, 2), fs) // lowest priority, pool is full
	if !errors.Is(err, ErrOOM) {
		t.Fatalf("expected ErrOOM, got %v", err)
	}
	if _, ok := mp.oracleResp[7]; ok {
		t.Errorf("FAILING-INPUT failed Add left oracleResp[7] set")
	}
	func() {
		defer func() {
			if r := recover(); r != nil {
				t.Errorf("FAILING-INPUT second response with the same id panicked: %v", r)
			}
		}()
		_ = mp.Add(orc(2, 3), fs)
	}()
}
