package storage

// Witness for finding D6 (property C09, "flushing a layer at any moment changes no answer"):
// a backwards range scan with a non-empty Start returns keys that extend Start when they sit in
// the on-disk backend (LevelDB/BoltDB range semantics) but not when they sit in a memory layer.

import (
	"path/filepath"
	"reflect"
	"testing"

	"github.com/nspcc-dev/neo-go/pkg/core/storage/dbconfig"
)

func TestVerifD6(t *testing.T) {
	ldb, err := NewLevelDBStore(dbconfig.LevelDBOptions{DataDirectoryPath: filepath.Join(t.TempDir(), "ldb")})
	if err != nil {
		t.Fatal(err)
	}
	defer ldb.Close()
	cached := NewMemCachedStore(ldb)
	for _, k := range []string{"pa", "pab", "pabc", "pb"} {
		cached.Put([]byte(k), []byte("v"))
	}
	scan := func() []string {
		var res []string
		cached.Seek(SeekRange{Prefix: []byte("p"), Start: []byte("ab"), Backwards: true}, func(k, v []byte) bool {
			res = append(res, string(k))
			return true
		})
		return res
	}
	before := scan()
	if _, err := cached.Persist(); err != nil {
		t.Fatal(err)
	}
	after := scan()
	if !reflect.DeepEqual(before, after) {
		t.Fatalf("FAILING-INPUT backwards Seek(prefix=p, start=ab) answered %v before the flush and %v after it", before, after)
	}
}
