package mpt

import (
	"testing"

	"github.com/nspcc-dev/neo-go/pkg/core/storage"
)

// Backwards range scan over a historic trie against the same scan over a plain memory store.
func TestVerifD11(t *testing.T) {
	keys := [][]byte{{0x11, 0x22, 0x33}, {0x12, 0x55}, {0x11, 0x40}, {0x10, 0x01}, {0x21}, {0x21, 0x05}, {0x21, 0x05, 0x07}, {0x21, 0x30}}
	tr := NewTrie(nil, ModeAll, storage.NewMemCachedStore(storage.NewMemoryStore()))
	ms := storage.NewMemoryStore()
	mc := storage.NewMemCachedStore(ms)
	for _, k := range keys {
		if err := tr.Put(k, []byte{1}); err != nil {
			t.Fatal(err)
		}
		mc.Put(append([]byte{byte(storage.STStorage)}, k...), []byte{1})
	}
	tr.Flush(0)
	if _, err := mc.Persist(); err != nil {
		t.Fatal(err)
	}
	st := NewTrieStore(tr.root.Hash(), ModeAll, tr.Store)
	for _, start := range [][]byte{{0x11, 0x30}, {0x11, 0x22, 0x34}, {0x11, 0x50}, {0x12}, {0x21, 0x06}, {0x21, 0x05}, {0x21, 0x05, 0x01}, {0x21, 0x2f}, {0x20}, {0x22}, {0x11, 0x22}, {0x11}, {0x21, 0x05, 0x07, 0x01}} {
		for _, back := range []bool{false, true} {
			rng := storage.SeekRange{Prefix: []byte{byte(storage.STStorage)}, Start: start, Backwards: back}
			var a, b []string
			st.Seek(rng, func(k, v []byte) bool { a = append(a, string(k[1:])); return true })
			ms.Seek(rng, func(k, v []byte) bool { b = append(b, string(k[1:])); return true })
			if len(a) != len(b) {
				t.Errorf("FAILING-INPUT start=%x backwards=%v: trie store gives %x, plain store gives %x", start, back, a, b)
				continue
			}
			for i := range a {
				if a[i] != b[i] {
					t.Errorf("FAILING-INPUT start=%x backwards=%v: trie store gives %x, plain store gives %x", start, back, a, b)
					break
				}
			}
		}
	}
}
