package stackitem

import "testing"

func TestVerifProbe(t *testing.T) {
	for _, in := range [][]byte{
		{0x21, 0x21, 1, 2, 3},                            // Integer with declared length 33 > 32
		{0x40, 0xff, 0xff, 0xff, 0xff, 0xff, 0xff, 0xff, 0xff, 0xff}, // Array with count 2^64-1
	} {
		func() {
			defer func() {
				if r := recover(); r != nil {
					t.Errorf("FAILING-INPUT Deserialize(%x) panicked: %v", in, r)
				}
			}()
			_, err := Deserialize(in)
			t.Logf("%x -> err=%v", in, err)
		}()
	}
}
