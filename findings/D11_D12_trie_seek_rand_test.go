package mpt

import (
	"math/rand"
	"testing"

	"github.com/nspcc-dev/neo-go/pkg/core/storage"
)

func TestVerifD11Rand(t *testing.T) {
	for seed := int64(1); seed <= 6; seed++ {
	r := rand.New(rand.NewSource(seed))
	for iter := 0; iter < 3000; iter++ {
		n := 1 + r.Intn(14)
		tr := NewTrie(nil, ModeAll, storage.NewMemCachedStore(storage.NewMemoryStore()))
		ms := storage.NewMemoryStore()
		mc := storage.NewMemCachedStore(ms)
		gen := func() []byte {
			l := 1 + r.Intn(4)
			k := make([]byte, l)
			for i := range k {
				k[i] = byte(0x10*(1+r.Intn(2)) + r.Intn(3))
			}
			return k
		}
		for i := 0; i < n; i++ {
			k := gen()
			if err := tr.Put(k, []byte{1}); err != nil {
				t.Fatal(err)
			}
			mc.Put(append([]byte{byte(storage.STStorage)}, k...), []byte{1})
		}
		tr.Flush(0)
		mc.Persist()
		st := NewTrieStore(tr.root.Hash(), ModeAll, tr.Store)
		for q := 0; q < 6; q++ {
			start := gen()
			if q == 0 {
				start = nil
			}
			var pfx = []byte{byte(storage.STStorage)}
			if r.Intn(3) == 0 {
				pfx = append(pfx, gen()[:1]...)
			}
			for _, back := range []bool{false, true} {
				rng := storage.SeekRange{Prefix: pfx, Start: start, Backwards: back}
				var a, b []string
				st.Seek(rng, func(k, v []byte) bool { a = append(a, string(k[1:])); return true })
				ms.Seek(rng, func(k, v []byte) bool { b = append(b, string(k[1:])); return true })
				same := len(a) == len(b)
				for i := 0; same && i < len(a); i++ {
					same = a[i] == b[i]
				}
				if !same {
					t.Fatalf("iter %d prefix=%x start=%x backwards=%v: trie store gives %x, plain store gives %x", iter, pfx, start, back, a, b)
				}
			}
		}
	}
}
}
