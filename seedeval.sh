#!/bin/bash
# usage: seedeval.sh <prop> <patch.diff> : applies the change to /repo, runs the quick check, restores /repo
prop=$1; patch=$2
cd /repo || exit 2
if [ -n "$(git status --porcelain)" ]; then echo "repo not clean (commit contract edits first: this script runs git checkout)"; exit 2; fi
git apply "$patch" || { echo "patch does not apply"; exit 2; }
cd /verif && VERIF_WORK=/tmp/seedwork_$prop VERIF_EVIDENCE_DIR=/tmp/seedev_$prop ./check $prop quick 2>&1 | grep -v WARN | tail -8
rc=${PIPESTATUS[0]}
cd /repo && git checkout -- . && git status --porcelain | head -3
echo "check exit=$rc"
