#!/bin/bash
# developer helper: run every claimed check (quick or the tier given) and summarise
tier=${1:-quick}
cd /verif
for id in $(python3 -c "import json; print(' '.join(c['property_id'] for c in json.load(open('MANIFEST.json'))['checks']))"); do
  s=$(date +%s)
  out=$(./check $id $tier 2>&1); rc=$?
  echo "$id rc=$rc $(( $(date +%s) - s ))s :: $(echo "$out" | grep -c '^VIOLATION') violations :: $(echo "$out" | tail -1)"
  echo "$out" | grep '^VIOLATION\|^KNOWN-FINDING'
done
