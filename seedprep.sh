#!/bin/bash
# usage: seedprep.sh <name> : scratch worktree of /repo HEAD under /tmp/seedwt/<name> without any verif_* file
n=$1
git -C /repo worktree remove --force /tmp/seedwt/$n 2>/dev/null
git -C /repo worktree add --detach /tmp/seedwt/$n HEAD >/dev/null 2>&1 || exit 2
cd /tmp/seedwt/$n && find . -name 'verif_*' -delete && git add -A >/dev/null && git -c user.name=x -c user.email=x@x commit -qm "scratch base" && echo /tmp/seedwt/$n
