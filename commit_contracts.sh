#!/bin/bash
# usage: commit_contracts.sh "<message>" Cxx [Cyy ...]
# runs the quick checks named, and only if every one exits 0 commits the contract edits in /repo
# (message prefixed "verif: ") and appends the commit to MANIFEST hooks.source_commits.
msg=$1; shift
cd /verif || exit 2
for c in "$@"; do
  out=$(./check $c quick 2>&1); rc=$?
  echo "$out" | tail -1
  if [ $rc -ne 0 ]; then echo "$out" | grep "VIOLATION\|ENGINE" | head; echo "NOT COMMITTED: $c fails"; exit 1; fi
done
cd /repo && git add -A pkg && git commit -qm "verif: $msg" || exit 1
H=$(git rev-parse HEAD)
cd /verif && python3 - "$H" <<'PY'
import json,sys
m=json.load(open('MANIFEST.json'))
m['hooks']['source_commits'].append(sys.argv[1])
json.dump(m,open('MANIFEST.json','w'),indent=1)
PY
echo "committed $H"
