#!/bin/bash
# usage: commit_contracts.sh "<message>" [Cxx ...]
# Commits the contract edits in /repo only if the quick checks pass on the tree as edited. Checked are:
# the properties named, every property named in a `//@ prop` line of a modified or new contract file,
# and ALL properties when a package many others call into (vm, stackitem, io, util, dao, interop,
# transaction, block, storage) is touched. The commit is appended to MANIFEST hooks.source_commits.
msg=$1; shift
cd /repo || exit 2
files=$(git status --porcelain pkg | awk '{print $2}' | grep verif_contracts)
nonc=$(git status --porcelain pkg | awk '{print $2}' | grep -v verif_contracts)
if [ -n "$nonc" ]; then echo "NOT COMMITTED: non-contract files modified: $nonc"; exit 1; fi
props="$@"
for f in $files; do props="$props $(grep -h '^//@ prop' $f | sed 's/^\/\/@ prop //; s/,/ /g')"; done
if echo "$files" | grep -q "pkg/vm/\|pkg/io/\|pkg/util/\|pkg/core/dao/\|pkg/core/interop/verif\|pkg/core/transaction/\|pkg/core/block/\|pkg/core/storage/"; then
  props="C04 C05 C06 C07 C08 C09 C10 C11 C12 C13 C15 C16 C17 C18"
fi
props=$(echo $props | tr ' ' '\n' | grep '^C[0-9][0-9]$' | sort -u)
cd /verif || exit 2
for c in $props; do
  out=$(./check $c quick 2>&1); rc=$?
  echo "$out" | tail -1
  if [ $rc -ne 0 ]; then echo "$out" | grep "VIOLATION\|ENGINE" | head; echo "NOT COMMITTED: $c fails"; exit 1; fi
done
cd /repo && git add -A pkg && git commit -qm "verif: $msg" || exit 1
H=$(git rev-parse HEAD)
cd /verif && python3 - "$H" <<'PY'
import json,sys
m=json.load(open('MANIFEST.json'))
m['hooks']['source_commits'].append(sys.argv[1])
json.dump(m,open('MANIFEST.json','w'),indent=1)
PY
echo "committed $H"
