package core

// Exhaustive check of the system-call flag table (C16): the table is data, not code, so no function
// contract reaches it; every row of the real table is compared with what the property demands of
// the handler it names. A handler that changes contract storage must require WriteStates, one that
// emits a notification or a log event AllowNotify, one that calls or loads other code AllowCall
// (and ReadStates for a contract call), a handler that reads storage or storage contexts ReadStates.
// Not bounded by iterations: all rows are visited (VERIF_BOUNDED_ITERS is ignored).

import (
	"reflect"
	"testing"

	"github.com/nspcc-dev/neo-go/pkg/core/interop"
	"github.com/nspcc-dev/neo-go/pkg/core/interop/contract"
	"github.com/nspcc-dev/neo-go/pkg/core/interop/runtime"
	"github.com/nspcc-dev/neo-go/pkg/core/interop/storage"
	"github.com/nspcc-dev/neo-go/pkg/core/native"
	"github.com/nspcc-dev/neo-go/pkg/smartcontract/callflag"
)

func TestVerifBoundedC16Table(t *testing.T) {
	fp := func(f func(*interop.Context) error) uintptr { return reflect.ValueOf(f).Pointer() }
	need := map[uintptr]struct {
		name  string
		flags callflag.CallFlag
	}{
		fp(storage.Put):                {"storage.Put", callflag.WriteStates},
		fp(storage.Delete):             {"storage.Delete", callflag.WriteStates},
		fp(storage.LocalPut):           {"storage.LocalPut", callflag.WriteStates},
		fp(storage.LocalDelete):        {"storage.LocalDelete", callflag.WriteStates},
		fp(storage.Get):                {"storage.Get", callflag.ReadStates},
		fp(storage.Find):               {"storage.Find", callflag.ReadStates},
		fp(storage.LocalGet):           {"storage.LocalGet", callflag.ReadStates},
		fp(storage.LocalFind):          {"storage.LocalFind", callflag.ReadStates},
		fp(storage.GetContext):         {"storage.GetContext", callflag.ReadStates},
		fp(storage.GetReadOnlyContext): {"storage.GetReadOnlyContext", callflag.ReadStates},
		fp(runtime.Notify):             {"runtime.Notify", callflag.AllowNotify},
		fp(runtime.Log):                {"runtime.Log", callflag.AllowNotify},
		fp(runtime.LoadScript):         {"runtime.LoadScript", callflag.AllowCall},
		fp(contract.Call):              {"contract.Call", callflag.ReadStates | callflag.AllowCall},
		fp(native.OnPersist):           {"native.OnPersist", callflag.States},
		fp(native.PostPersist):         {"native.PostPersist", callflag.States},
	}
	seen := map[uintptr]bool{}
	for _, f := range systemInterops {
		p := fp(f.Func)
		if n, ok := need[p]; ok {
			seen[p] = true
			if !f.RequiredFlags.Has(n.flags) {
				t.Fatalf("FAILING-INPUT system call %s (handler %s) requires flags %05b, the property demands %05b", f.Name, n.name, f.RequiredFlags, n.flags)
			}
		}
	}
	for p, n := range need {
		if !seen[p] {
			t.Fatalf("FAILING-INPUT handler %s is not in the system call table any more: the check does not cover it", n.name)
		}
	}
}
