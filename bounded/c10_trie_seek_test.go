package mpt

// Bounded stand-in for the ordered range search of C10 (Billet.traverse and TrieStore.Seek are
// outside the contracts' reach: deep recursion over the stored trie): random tries, every range
// scan over the trie store compared with the same scan over a plain ordered store. Bound: keys
// of 1..4 bytes over six byte values, up to 14 keys, prefixes of 0..1 bytes, both directions,
// VERIF_BOUNDED_ITERS tries (default 2000), seed VERIF_SEED.

import (
	"bytes"
	"math/rand"
	"os"
	"sort"
	"strconv"
	"testing"

	"github.com/nspcc-dev/neo-go/pkg/core/storage"
)

func bytesCompareC10(a, b []byte) int { return bytes.Compare(a, b) }

func TestVerifBoundedC10(t *testing.T) {
	iters := 2000
	if v, err := strconv.Atoi(os.Getenv("VERIF_BOUNDED_ITERS")); err == nil {
		iters = v
	}
	seed, _ := strconv.Atoi(os.Getenv("VERIF_SEED"))
	r := rand.New(rand.NewSource(int64(seed)*104729 + 1))
	for iter := 0; iter < iters; iter++ {
		n := 1 + r.Intn(14)
		tr := NewTrie(nil, ModeAll, storage.NewMemCachedStore(storage.NewMemoryStore()))
		ms := storage.NewMemoryStore()
		mc := storage.NewMemCachedStore(ms)
		gen := func() []byte {
			l := 1 + r.Intn(4)
			k := make([]byte, l)
			for i := range k {
				k[i] = byte(0x10*(1+r.Intn(2)) + r.Intn(3))
			}
			return k
		}
		var keys [][]byte
		for i := 0; i < n; i++ {
			k := gen()
			keys = append(keys, k)
			if err := tr.Put(k, []byte{1}); err != nil {
				t.Fatal(err)
			}
			mc.Put(append([]byte{byte(storage.STStorage)}, k...), []byte{1})
		}
		// the same content put as one batch into another trie: same root (the trie is canonical:
		// the root is a function of the content, not of how it was inserted), and every key reads
		// back - twice, in two different orders - from that same in-memory trie
		bm := map[string][]byte{}
		for _, k := range keys {
			bm["\x70"+string(k)] = []byte{1}
		}
		tb := NewTrie(nil, ModeAll, storage.NewMemCachedStore(storage.NewMemoryStore()))
		if _, err := tb.PutBatch(MapToMPTBatch(bm)); err != nil {
			t.Fatalf("FAILING-INPUT keys=%x: PutBatch: %v", keys, err)
		}
		if tb.StateRoot() != tr.StateRoot() {
			t.Fatalf("FAILING-INPUT keys=%x: root after one batch %s differs from the root after single puts %s", keys, tb.StateRoot().StringBE(), tr.StateRoot().StringBE())
		}
		for pass := 0; pass < 2; pass++ {
			for _, i := range r.Perm(len(keys)) {
				if v, err := tb.Get(keys[i]); err != nil || len(v) != 1 || v[0] != 1 {
					t.Fatalf("FAILING-INPUT keys=%x: Get(%x) on the batch-built trie (pass %d) = %x, %v", keys, keys[i], pass, v, err)
				}
			}
		}
		tr.Flush(0)
		if _, err := mc.Persist(); err != nil {
			t.Fatal(err)
		}
		// Trie.Find: keys under a prefix, in order, strictly after prefix+from; prefix and from are
		// cut out of a stored key (so that the prefix may end inside an extension node and `from`
		// may be exactly the rest of its key) or random
		for q := 0; q < 6 && len(keys) > 0; q++ {
			k := keys[r.Intn(len(keys))]
			i := r.Intn(len(k) + 1)
			pfx := append([]byte{}, k[:i]...)
			var from []byte
			switch r.Intn(3) {
			case 0:
				j := i + r.Intn(len(k)-i+1)
				from = append([]byte{}, k[i:j]...)
			case 1:
				from = gen()
			}
			if len(from) == 0 {
				from = nil // an empty non-nil `from` means "after the prefix itself"; nil means no start point
			}
			var want []string
			seen := map[string]bool{}
			for _, kk := range keys {
				if seen[string(kk)] || len(kk) < len(pfx) || string(kk[:len(pfx)]) != string(pfx) {
					continue
				}
				seen[string(kk)] = true
				if len(from) == 0 || bytesCompareC10(kk[len(pfx):], from) > 0 {
					want = append(want, string(kk))
				}
			}
			sort.Strings(want)
			res, err := tr.Find(pfx, from, 1000)
			if err != nil && len(want) > 0 {
				t.Fatalf("FAILING-INPUT keys=%x find{prefix=%x from=%x}: %v, want %x", keys, pfx, from, err, want)
			}
			var got []string
			for _, kv := range res {
				got = append(got, string(kv.Key))
			}
			same := len(got) == len(want)
			for x := 0; same && x < len(got); x++ {
				same = got[x] == want[x]
			}
			if !same {
				t.Fatalf("FAILING-INPUT keys=%x find{prefix=%x from=%x}: trie gives %x, want %x", keys, pfx, from, got, want)
			}
		}
		st := NewTrieStore(tr.root.Hash(), ModeAll, tr.Store)
		for q := 0; q < 6; q++ {
			start := gen()
			if q == 0 {
				start = nil
			}
			var pfx = []byte{byte(storage.STStorage)}
			if r.Intn(3) == 0 {
				pfx = append(pfx, gen()[:1]...)
			}
			for _, back := range []bool{false, true} {
				rng := storage.SeekRange{Prefix: pfx, Start: start, Backwards: back}
				var a, b []string
				st.Seek(rng, func(k, v []byte) bool { a = append(a, string(k[1:])); return true })
				ms.Seek(rng, func(k, v []byte) bool { b = append(b, string(k[1:])); return true })
				same := len(a) == len(b)
				for i := 0; same && i < len(a); i++ {
					same = a[i] == b[i]
				}
				if !same {
					t.Fatalf("FAILING-INPUT keys=%x seek{prefix=%x start=%x backwards=%v}: trie store gives %x, plain store gives %x", keys, pfx, start, back, a, b)
				}
			}
		}
	}
}
