package bigint

// Bounded stand-in for ToPreallocatedBytes/ToBytes (word-level arithmetic on math/big internals,
// outside the contracts' reach): values built from boundary words (all zeros, all ones, one bit,
// random) of 1..5 machine words, both signs; the encoding is compared with an independently
// computed two's complement, the operand must be left unchanged and decoding must give it back.
// VERIF_BOUNDED_ITERS random values on top of the exhaustive boundary combinations.

import (
	"math/big"
	"math/rand"
	"os"
	"strconv"
	"testing"
)

func verifRefTwos(n *big.Int) []byte {
	if n.Sign() == 0 {
		return []byte{}
	}
	// minimal little-endian two's complement
	for l := 1; ; l++ {
		lim := new(big.Int).Lsh(big.NewInt(1), uint(8*l-1))
		if n.Cmp(new(big.Int).Neg(lim)) >= 0 && n.Cmp(lim) < 0 {
			v := new(big.Int).Set(n)
			if v.Sign() < 0 {
				v.Add(v, new(big.Int).Lsh(big.NewInt(1), uint(8*l)))
			}
			be := v.FillBytes(make([]byte, l))
			out := make([]byte, l)
			for i := range be {
				out[l-1-i] = be[i]
			}
			return out
		}
	}
}

func TestVerifBoundedC18(t *testing.T) {
	iters := 20000
	if v, err := strconv.Atoi(os.Getenv("VERIF_BOUNDED_ITERS")); err == nil {
		iters = v
	}
	seed, _ := strconv.Atoi(os.Getenv("VERIF_SEED"))
	r := rand.New(rand.NewSource(int64(seed) + 17))
	words := []big.Word{0, ^big.Word(0), 1, big.Word(1) << 63, ^big.Word(0) >> 1, 0x80, 0xff, 0x7f}
	check := func(ws []big.Word, neg bool) {
		n := new(big.Int).SetBits(append([]big.Word{}, ws...))
		if neg {
			n.Neg(n)
		}
		orig := new(big.Int).Set(n)
		got := ToBytes(n)
		if n.Cmp(orig) != 0 {
			t.Fatalf("FAILING-INPUT n=%s: ToBytes changed its operand to %s", orig, n)
		}
		want := verifRefTwos(orig)
		if string(got) != string(want) {
			t.Fatalf("FAILING-INPUT n=%s: ToBytes=%x, two's complement is %x", orig, got, want)
		}
		if back := FromBytes(got); back.Cmp(orig) != 0 {
			t.Fatalf("FAILING-INPUT n=%s: FromBytes(ToBytes(n))=%s", orig, back)
		}
		buf := make([]byte, 0, 64)
		if got2 := ToPreallocatedBytes(n, buf); string(got2) != string(want) || n.Cmp(orig) != 0 {
			t.Fatalf("FAILING-INPUT n=%s: ToPreallocatedBytes=%x (operand now %s), two's complement is %x", orig, got2, n, want)
		}
	}
	// exhaustive over boundary words for 1..3 words
	for l := 1; l <= 3; l++ {
		idx := make([]int, l)
		for {
			ws := make([]big.Word, l)
			for i := range ws {
				ws[i] = words[idx[i]]
			}
			check(ws, false)
			check(ws, true)
			k := 0
			for k < l {
				idx[k]++
				if idx[k] < len(words) {
					break
				}
				idx[k] = 0
				k++
			}
			if k == l {
				break
			}
		}
	}
	for it := 0; it < iters; it++ {
		l := 1 + r.Intn(5)
		ws := make([]big.Word, l)
		for i := range ws {
			if r.Intn(2) == 0 {
				ws[i] = words[r.Intn(len(words))]
			} else {
				ws[i] = big.Word(r.Uint64())
			}
		}
		check(ws, r.Intn(2) == 0)
	}
}
