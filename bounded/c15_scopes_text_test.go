package transaction

// Exhaustive stand-in for the textual form of witness scopes (C15, C17): ScopesFromString is a
// range-over-func loop writing the enclosing function's results, outside the contracts' reach.
// Every ordered selection of up to four of the six scope names (with and without blanks after the
// commas) is parsed; what the text form accepts must be a scope set the binary form accepts
// (ScopesFromByte), and must print and parse back to itself. Not bounded by iterations.

import (
	"strings"
	"testing"
)

func TestVerifBoundedC15ScopesText(t *testing.T) {
	names := []string{"None", "CalledByEntry", "CustomContracts", "CustomGroups", "WitnessRules", "Global"}
	var rec func(sel []string)
	check := func(sel []string) {
		for _, sep := range []string{",", ", "} {
			s := strings.Join(sel, sep)
			sc, err := ScopesFromString(s)
			if err != nil {
				continue
			}
			if _, err := ScopesFromByte(byte(sc)); err != nil {
				t.Fatalf("FAILING-INPUT ScopesFromString(%q) = %#x without error, the binary form refuses that value: %v", s, byte(sc), err)
			}
			txt := scopesToString(sc)
			back, err := ScopesFromString(txt)
			if err != nil || back != sc {
				t.Fatalf("FAILING-INPUT ScopesFromString(%q) = %#x prints as %q which parses to %#x, %v", s, byte(sc), txt, byte(back), err)
			}
		}
	}
	rec = func(sel []string) {
		if len(sel) > 0 {
			check(sel)
		}
		if len(sel) == 4 {
			return
		}
		for _, n := range names {
			rec(append(append([]string{}, sel...), n))
		}
	}
	rec(nil)
}
