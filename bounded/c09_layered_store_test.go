package storage

// Bounded stand-in for the parts of C09 no contract covers (merge of layers, disk cursors):
// random histories of put/delete/flush over stacks of cache layers on each backend, every
// range scan compared with a single ordered reference map. Bound: keys of 1..4 bytes over a
// 5-byte alphabet (three letters and the two prefix bytes) under three 1-byte prefixes (one of them 0xFF, whose range has no upper bound), up to 3 layers, up to 40 operations per
// history, one put in eight stores an empty value, every scan is made four times (synchronous with full
// keys, stopped by the consumer after a random number of entries, limited to a random number of cache layers, asynchronous with the prefix cut), VERIF_BOUNDED_ITERS histories per backend (default 400),
// seed VERIF_SEED.

import (
	"bytes"
	"context"
	"fmt"
	"math/rand"
	"os"
	"path/filepath"
	"sort"
	"strconv"
	"strings"
	"testing"

	"github.com/nspcc-dev/neo-go/pkg/core/storage/dbconfig"
)

func verifEnvInt(name string, def int) int {
	if v, err := strconv.Atoi(os.Getenv(name)); err == nil {
		return v
	}
	return def
}

func verifRefSeek(ref map[string][]byte, rng SeekRange) []string {
	var keys []string
	for k := range ref {
		if !strings.HasPrefix(k, string(rng.Prefix)) {
			continue
		}
		rem := k[len(rng.Prefix):]
		if len(rng.Start) != 0 {
			c := strings.Compare(rem, string(rng.Start))
			if !rng.Backwards && c < 0 {
				continue
			}
			if rng.Backwards && c > 0 && !strings.HasPrefix(rem, string(rng.Start)) {
				continue
			}
		}
		keys = append(keys, k)
	}
	sort.Strings(keys)
	if rng.Backwards {
		for i, j := 0, len(keys)-1; i < j; i, j = i+1, j-1 {
			keys[i], keys[j] = keys[j], keys[i]
		}
	}
	return keys
}

func TestVerifBoundedC09(t *testing.T) {
	iters := verifEnvInt("VERIF_BOUNDED_ITERS", 400)
	seed := int64(verifEnvInt("VERIF_SEED", 0))
	backends := map[string]func(dir string) Store{
		"memory": func(string) Store { return NewMemoryStore() },
		"leveldb": func(dir string) Store {
			s, err := NewLevelDBStore(dbconfig.LevelDBOptions{DataDirectoryPath: dir})
			if err != nil {
				t.Fatal(err)
			}
			return s
		},
		"boltdb": func(dir string) Store {
			s, err := NewBoltDBStore(dbconfig.BoltDBOptions{FilePath: filepath.Join(dir, "bolt.db")})
			if err != nil {
				t.Fatal(err)
			}
			return s
		},
	}
	for name, mk := range backends {
		r := rand.New(rand.NewSource(seed*7919 + int64(len(name))))
		n := iters
		if name != "memory" {
			n = iters / 8
		}
		for it := 0; it < n; it++ {
			dir := t.TempDir()
			base := mk(dir)
			ref := map[string][]byte{}
			layers := []*MemCachedStore{NewMemCachedStore(base)}
			depth := 1 + r.Intn(3)
			for len(layers) < depth {
				if r.Intn(2) == 0 {
					layers = append(layers, NewMemCachedStore(layers[len(layers)-1]))
				} else {
					layers = append(layers, NewPrivateMemCachedStore(layers[len(layers)-1]))
				}
			}
			top := layers[len(layers)-1]
			gen := func(min int) []byte {
				l := min + r.Intn(4)
				k := make([]byte, l)
				for i := range k {
					// three letters plus the two prefix bytes themselves: a key whose body repeats its
					// prefix is, with the prefix cut, byte-equal to another full key (D16)
					k[i] = []byte{'a', 'b', 'c', byte(STStorage), byte(DataMPT)}[r.Intn(5)]
				}
				return k
			}
			key := func() []byte {
				p := byte(STStorage)
				switch r.Intn(5) {
				case 0, 1:
					p = byte(DataMPT)
				case 2:
					p = 0xFF // a range with no upper bound: the backend cursor has no limit key to start a backwards scan from
				}
				return append([]byte{p}, gen(0)...)
			}
			var hist []string
			for op := 0; op < 40; op++ {
				switch c := r.Intn(10); {
				case c < 5:
					k, v := key(), []byte{byte(op + 1)}
					if r.Intn(8) == 0 {
						v = []byte{} // a stored empty value is a value, not an absent key
					}
					top.Put(k, v)
					ref[string(k)] = v
					hist = append(hist, fmt.Sprintf("put %x", k))
				case c < 7:
					k := key()
					top.Delete(k)
					delete(ref, string(k))
					hist = append(hist, fmt.Sprintf("del %x", k))
				case c < 8:
					// flush some layer (private layers are closed by Persist: flush lower, shared ones only)
					i := r.Intn(len(layers))
					if !layers[i].private {
						if _, err := layers[i].Persist(); err != nil {
							t.Fatal(err)
						}
						hist = append(hist, fmt.Sprintf("persist %d", i))
					}
				default:
					p := key()[:1]
					if r.Intn(2) == 0 {
						p = append(p, gen(1)[:1]...)
					}
					rng := SeekRange{Prefix: p, Backwards: r.Intn(2) == 0}
					if r.Intn(2) == 0 {
						rng.Start = gen(1)
					}
					var got []string
					var vals [][]byte
					top.Seek(rng, func(k, v []byte) bool {
						got = append(got, string(k))
						vals = append(vals, bytes.Clone(v))
						return true
					})
					want := verifRefSeek(ref, rng)
					ok := len(got) == len(want)
					for i := 0; ok && i < len(got); i++ {
						ok = got[i] == want[i] && bytes.Equal(vals[i], ref[want[i]])
					}
					if !ok {
						t.Fatalf("FAILING-INPUT backend=%s history=%v seek{prefix=%x start=%x backwards=%v} got %x want %x", name, hist, rng.Prefix, rng.Start, rng.Backwards, got, want)
					}
					// a scan limited to the top d cache layers (SearchDepth d): what those d layers hold
					// themselves, upper ones shadowing lower ones, deletion marks included
					{
						d := 1 + r.Intn(len(layers))
						own := map[string][]byte{}
						for li := len(layers) - 1; li >= len(layers)-d; li-- {
							for _, mm := range []map[string][]byte{layers[li].mem, layers[li].stor} {
								for k, v := range mm {
									if _, seen := own[k]; !seen {
										own[k] = v
									}
								}
							}
						}
						vis := map[string][]byte{}
						for k, v := range own {
							if v != nil {
								vis[k] = v
							}
						}
						wantD := verifRefSeek(vis, rng)
						rd := rng
						rd.SearchDepth = d
						var gotD []string
						top.Seek(rd, func(k, v []byte) bool { gotD = append(gotD, string(k)); return true })
						ok = len(gotD) == len(wantD)
						for i := 0; ok && i < len(gotD); i++ {
							ok = gotD[i] == wantD[i]
						}
						if !ok {
							t.Fatalf("FAILING-INPUT backend=%s history=%v seek{prefix=%x start=%x backwards=%v depth=%d of %d layers} got %x want %x", name, hist, rng.Prefix, rng.Start, rng.Backwards, d, len(layers), gotD, wantD)
						}
					}
					// a scan the consumer stops early: exactly the first entries, nothing after the stop
					if len(want) > 0 {
						stop := 1 + r.Intn(len(want))
						var gotStop []string
						top.Seek(rng, func(k, v []byte) bool {
							gotStop = append(gotStop, string(k))
							return len(gotStop) < stop
						})
						ok = len(gotStop) == stop
						for i := 0; ok && i < stop; i++ {
							ok = gotStop[i] == want[i]
						}
						if !ok {
							t.Fatalf("FAILING-INPUT backend=%s history=%v seek{prefix=%x start=%x backwards=%v} stopped after %d: got %x want %x", name, hist, rng.Prefix, rng.Start, rng.Backwards, stop, gotStop, want[:stop])
						}
					}
					// the asynchronous scan with the prefix cut off the keys: same entries, same order
					ctx, cancel := context.WithCancel(context.Background())
					var gotCut []string
					var valsCut [][]byte
					for kv := range top.SeekAsync(ctx, rng, true) {
						gotCut = append(gotCut, string(kv.Key))
						valsCut = append(valsCut, bytes.Clone(kv.Value))
					}
					cancel()
					ok = len(gotCut) == len(want)
					for i := 0; ok && i < len(gotCut); i++ {
						ok = gotCut[i] == want[i][len(rng.Prefix):] && bytes.Equal(valsCut[i], ref[want[i]])
					}
					if !ok {
						t.Fatalf("FAILING-INPUT backend=%s history=%v seekasync-cut{prefix=%x start=%x backwards=%v} got %x want %x (prefix cut)", name, hist, rng.Prefix, rng.Start, rng.Backwards, gotCut, want)
					}
					for k, v := range ref {
						g, err := top.Get([]byte(k))
						if err != nil || !bytes.Equal(g, v) {
							t.Fatalf("FAILING-INPUT backend=%s history=%v get %x = %x, %v want %x", name, hist, k, g, err, v)
						}
					}
				}
			}
			base.Close()
		}
	}
}
