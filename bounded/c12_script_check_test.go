package scparser

// Bounded stand-in for IsScriptCorrect (C12: "a script that passes the static script check never
// executes an offset that is not an instruction boundary"): random scripts assembled from valid
// instructions with random (often deliberately misaligned) offsets; for every accepted script an
// independent decoder recomputes the instruction boundaries and every offset-carrying instruction
// (all jumps and calls in both widths, ENDTRY/ENDTRYL, PUSHA, TRY/TRYL) must point at a boundary
// or at the end of the script. Bound: scripts of up to 12 instructions, VERIF_BOUNDED_ITERS scripts.

import (
	"encoding/binary"
	"math/rand"
	"os"
	"strconv"
	"testing"

	"github.com/nspcc-dev/neo-go/pkg/vm/opcode"
)

func TestVerifBoundedC12(t *testing.T) {
	iters := 20000
	if v, err := strconv.Atoi(os.Getenv("VERIF_BOUNDED_ITERS")); err == nil {
		iters = v
	}
	seed, _ := strconv.Atoi(os.Getenv("VERIF_SEED"))
	r := rand.New(rand.NewSource(int64(seed)*31 + 5))
	short := []opcode.Opcode{opcode.JMP, opcode.JMPIF, opcode.JMPIFNOT, opcode.JMPEQ, opcode.JMPNE, opcode.JMPGT, opcode.JMPGE, opcode.JMPLT, opcode.JMPLE, opcode.CALL, opcode.ENDTRY}
	long := []opcode.Opcode{opcode.JMPL, opcode.JMPIFL, opcode.JMPIFNOTL, opcode.JMPEQL, opcode.JMPNEL, opcode.JMPGTL, opcode.JMPGEL, opcode.JMPLTL, opcode.JMPLEL, opcode.CALLL, opcode.ENDTRYL, opcode.PUSHA}
	type ins struct {
		off    int
		op     opcode.Opcode
		plen   int
		nrel   int // number of relative offsets carried
		width  int
		relpos []int
	}
	accepted := 0
	for it := 0; it < iters; it++ {
		n := 1 + r.Intn(12)
		var script []byte
		var list []ins
		for i := 0; i < n; i++ {
			in := ins{off: len(script)}
			switch c := r.Intn(10); {
			case c < 3:
				in.op, in.plen, in.nrel, in.width = short[r.Intn(len(short))], 1, 1, 1
			case c < 6:
				in.op, in.plen, in.nrel, in.width = long[r.Intn(len(long))], 4, 1, 4
			case c < 7:
				in.op, in.plen, in.nrel, in.width = opcode.TRY, 2, 2, 1
			case c < 8:
				in.op, in.plen = opcode.PUSHDATA1, 1+r.Intn(4)
			case c < 9:
				in.op, in.plen = opcode.PUSHINT32, 4
			default:
				in.op = []opcode.Opcode{opcode.NOP, opcode.RET, opcode.PUSH1, opcode.DROP}[r.Intn(4)]
			}
			script = append(script, byte(in.op))
			if in.op == opcode.PUSHDATA1 {
				script = append(script, byte(in.plen-1))
				for k := 0; k < in.plen-1; k++ {
					script = append(script, byte(r.Intn(256)))
				}
			} else {
				for k := 0; k < in.plen; k++ {
					script = append(script, 0)
				}
			}
			list = append(list, in)
		}
		bound := map[int]bool{len(script): true}
		for _, in := range list {
			bound[in.off] = true
		}
		// fill in offsets: mostly to boundaries, sometimes anywhere in the script
		for _, in := range list {
			for k := 0; k < in.nrel; k++ {
				var target int
				if r.Intn(4) == 0 {
					target = r.Intn(len(script) + 1)
				} else {
					target = list[r.Intn(len(list))].off
				}
				rel := target - in.off
				pos := in.off + 1 + k*in.width
				if in.width == 1 {
					if rel < -128 || rel > 127 {
						rel = 0
					}
					script[pos] = byte(int8(rel))
				} else {
					binary.LittleEndian.PutUint32(script[pos:], uint32(int32(rel)))
				}
			}
		}
		if IsScriptCorrect(script, nil) != nil {
			continue
		}
		accepted++
		for _, in := range list {
			for k := 0; k < in.nrel; k++ {
				pos := in.off + 1 + k*in.width
				var rel int
				if in.width == 1 {
					rel = int(int8(script[pos]))
				} else {
					rel = int(int32(binary.LittleEndian.Uint32(script[pos:])))
				}
				if !bound[in.off+rel] {
					t.Fatalf("FAILING-INPUT script=%x accepted, but %s at offset %d points to %d, which is not an instruction boundary", script, in.op, in.off, in.off+rel)
				}
			}
		}
	}
	if accepted < iters/20 {
		t.Fatalf("generator too weak: only %d of %d scripts accepted", accepted, iters)
	}
}
