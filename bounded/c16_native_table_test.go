package native

// Exhaustive check of the native contracts' method tables (C16): the tables are data, no function
// contract reaches them. Every row of every native contract built with the default configuration is
// visited (all hard-fork variants, not only the latest - the existing compiler test covers only those).
// (1) All variants of one method (same name and parameter count) agree on whether they need
// WriteStates, AllowNotify and AllowCall... a later variant may ADD a flag (Echidna added AllowNotify
// to methods that notify), none may lack WriteStates where another has it. (2) A method marked Safe in
// the manifest requires neither WriteStates nor AllowNotify. (3) Methods named as state-changing in
// the list below require WriteStates. VERIF_BOUNDED_ITERS is ignored.

import (
	"strings"
	"testing"

	"github.com/nspcc-dev/neo-go/pkg/config"
	"github.com/nspcc-dev/neo-go/pkg/core/interop"
	"github.com/nspcc-dev/neo-go/pkg/smartcontract/callflag"
)

func verifHFMD(c interop.Contract, hf *config.Hardfork) (md *interop.HFSpecificContractMD) {
	defer func() {
		if recover() != nil {
			md = nil
		}
	}()
	return c.Metadata().HFSpecificContractMD(hf)
}

func TestVerifBoundedC16NativeTable(t *testing.T) {
	writers := map[string]bool{
		"transfer": true, "vote": true, "registerCandidate": true, "unregisterCandidate": true,
		"deploy": true, "update": true, "destroy": true, "blockAccount": true, "unblockAccount": true,
		"designateAsRole": true, "request": true, "finish": true, "lockDepositUntil": true, "withdraw": true,
	}
	type key struct {
		c, name string
		n       int
	}
	seenW := map[key][]bool{}
	rows := 0
	hfs := append([]*config.Hardfork{nil}, func() []*config.Hardfork {
		var r []*config.Hardfork
		for i := range config.Hardforks {
			r = append(r, &config.Hardforks[i])
		}
		return r
	}()...)
	for _, c := range NewDefaultContracts(config.ProtocolConfiguration{}) {
		for _, hf := range hfs {
			md := verifHFMD(c, hf)
			if md == nil {
				continue // the contract does not exist before its activation hard fork
			}
			name := c.Metadata().Name
			for _, m := range md.Methods {
				rows++
				k := key{name, m.MD.Name, len(m.MD.Parameters)}
				w := m.RequiredFlags.Has(callflag.WriteStates)
				seenW[k] = append(seenW[k], w)
				if m.MD.Safe && (w || m.RequiredFlags.Has(callflag.AllowNotify)) {
					t.Fatalf("FAILING-INPUT %s.%s/%d is marked safe but requires flags %05b", name, m.MD.Name, len(m.MD.Parameters), m.RequiredFlags)
				}
				if (writers[m.MD.Name] || strings.HasPrefix(m.MD.Name, "set")) && !w {
					t.Fatalf("FAILING-INPUT %s.%s/%d changes state and requires flags %05b (no WriteStates)", name, m.MD.Name, len(m.MD.Parameters), m.RequiredFlags)
				}
			}
		}
	}
	for k, ws := range seenW {
		for _, w := range ws {
			if w != ws[0] {
				t.Fatalf("FAILING-INPUT the hard-fork variants of %s.%s/%d disagree on WriteStates", k.c, k.name, k.n)
			}
		}
	}
	if rows < 100 {
		t.Fatalf("FAILING-INPUT only %d native method rows visited: the check does not cover the tables any more", rows)
	}
}
