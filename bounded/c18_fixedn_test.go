package fixedn

// Bounded stand-in for the fixed-point decimal text form (C18: "decode back to exactly what was
// encoded"). ToString/FromString and Fixed8.String/Fixed8FromString format and parse through
// math/big and strings, outside the contracts' reach; this runs the real functions: every value is
// printed and parsed back, for precisions 0, 1, 8 and 16, over boundary values (zero, +-1 unit,
// +-just under one whole, +-one whole, +-whole-and-fraction, large) and VERIF_BOUNDED_ITERS random
// values of both signs.

import (
	"math/big"
	"math/rand"
	"os"
	"strconv"
	"testing"
)

func TestVerifBoundedC18Fixedn(t *testing.T) {
	iters := 2000
	if v, err := strconv.Atoi(os.Getenv("VERIF_BOUNDED_ITERS")); err == nil {
		iters = v
	}
	seed := int64(1)
	if v, err := strconv.ParseInt(os.Getenv("VERIF_SEED"), 10, 64); err == nil {
		seed = v
	}
	r := rand.New(rand.NewSource(seed))
	check := func(v int64, p int) {
		bi := big.NewInt(v)
		s := ToString(bi, p)
		back, err := FromString(s, p)
		if err != nil || back.Cmp(bi) != 0 {
			t.Fatalf("FAILING-INPUT value %d at precision %d prints as %q, which parses to %v (%v)", v, p, s, back, err)
		}
		if p == 8 && v != -1<<63 {
			fs := Fixed8(v).String()
			fb, err := Fixed8FromString(fs)
			if err != nil || int64(fb) != v {
				t.Fatalf("FAILING-INPUT Fixed8(%d) prints as %q, which parses to %d (%v)", v, fs, int64(fb), err)
			}
			if fs != s {
				t.Fatalf("FAILING-INPUT Fixed8(%d).String() = %q, ToString(.., 8) = %q", v, fs, s)
			}
		}
	}
	for _, p := range []int{0, 1, 8, 16} {
		unit := int64(1)
		for i := 0; i < p && i < 16; i++ {
			unit *= 10
		}
		for _, v := range []int64{0, 1, -1, unit - 1, -(unit - 1), unit / 2, -(unit / 2), unit, -unit, unit + 1, -(unit + 1), 3*unit + unit/2, -(3*unit + unit/2), 1<<62 + 12345, -(1<<62 + 12345)} {
			check(v, p)
		}
		for i := 0; i < iters; i++ {
			v := r.Int63n(4*unit+4) - 2*unit - 2
			if r.Intn(4) == 0 {
				v = r.Int63() - 1<<62
			}
			check(v, p)
		}
	}
}
