package mpt

// Bounded stand-in for the global half of C11 (a graph fact no per-function contract carries):
// after every block the stored reference count of each node equals the number of its occurrences
// in the latest trie, every node reachable from the latest root is present (and active), nothing
// else is live, and every key reads back through a fresh trie over the same store.
// Bound: random block histories of 2..7 blocks, 1..4 changes per block (PutBatch the way the
// state-root module applies them, or single Put/Delete), keys of 1..3 bytes over three byte values
// (so that keys are prefixes of each other and share long nibble paths), three values (so that
// leaves and subtrees are shared), ModeLatest and ModeGC, the in-memory trie collapsed or reloaded
// from the root at random between blocks. VERIF_BOUNDED_ITERS histories (default 500), seed VERIF_SEED.

import (
	"encoding/binary"
	"fmt"
	"math/rand"
	"os"
	"strconv"
	"testing"

	"github.com/nspcc-dev/neo-go/pkg/core/storage"
	"github.com/nspcc-dev/neo-go/pkg/io"
	"github.com/nspcc-dev/neo-go/pkg/util"
)

func verifC11Occ(st *storage.MemCachedStore, h util.Uint256, occ map[util.Uint256]int, gc bool) error {
	data, err := st.Get(makeStorageKey(h))
	if err != nil {
		return fmt.Errorf("node %s is reachable from the latest root but missing from the store", h.StringBE())
	}
	if len(data) < 6 {
		return fmt.Errorf("node %s: stored value too short", h.StringBE())
	}
	if data[len(data)-5] != 1 {
		return fmt.Errorf("node %s is reachable from the latest root but marked inactive", h.StringBE())
	}
	var n NodeObject
	r := io.NewBinReaderFromBuf(data[:len(data)-5])
	n.DecodeBinary(r)
	if r.Err != nil {
		return fmt.Errorf("node %s: %w", h.StringBE(), r.Err)
	}
	occ[h]++
	switch nd := n.Node.(type) {
	case *BranchNode:
		for _, c := range nd.Children {
			if hn, ok := c.(*HashNode); ok {
				if err := verifC11Occ(st, hn.Hash(), occ, gc); err != nil {
					return err
				}
			}
		}
	case *ExtensionNode:
		if hn, ok := nd.next.(*HashNode); ok {
			if err := verifC11Occ(st, hn.Hash(), occ, gc); err != nil {
				return err
			}
		}
	}
	return nil
}

func verifC11Check(st *storage.MemCachedStore, root util.Uint256, mode TrieMode, expected map[string][]byte) error {
	occ := make(map[util.Uint256]int)
	if !root.Equals(util.Uint256{}) {
		if err := verifC11Occ(st, root, occ, mode.GC()); err != nil {
			return err
		}
	}
	var bad error
	live := 0
	st.Seek(storage.SeekRange{Prefix: []byte{byte(storage.DataMPT)}}, func(k, v []byte) bool {
		h, err := util.Uint256DecodeBytesBE(k[1:])
		if err != nil || len(v) < 5 {
			bad = fmt.Errorf("malformed record %x", k)
			return false
		}
		active := v[len(v)-5] == 1
		cnt := int(binary.LittleEndian.Uint32(v[len(v)-4:]))
		if !active {
			if !mode.GC() {
				bad = fmt.Errorf("inactive record of %s outside the GC mode", h.StringBE())
				return false
			}
			if occ[h] != 0 {
				bad = fmt.Errorf("node %s occurs %d times in the latest trie but is inactive", h.StringBE(), occ[h])
				return false
			}
			return true
		}
		live++
		if occ[h] != cnt {
			bad = fmt.Errorf("stored count %d of node %s differs from its %d occurrences in the latest trie", cnt, h.StringBE(), occ[h])
			return false
		}
		return true
	})
	if bad != nil {
		return bad
	}
	if live != len(occ) {
		return fmt.Errorf("%d live records for %d distinct nodes of the latest trie", live, len(occ))
	}
	fresh := NewTrie(NewHashNode(root), mode, st)
	if root.Equals(util.Uint256{}) {
		fresh = NewTrie(nil, mode, st)
	}
	for k, v := range expected {
		got, err := fresh.Get([]byte(k))
		if err != nil {
			return fmt.Errorf("key %x present but Get fails: %w", k, err)
		}
		if string(got) != string(v) {
			return fmt.Errorf("key %x reads %x, expected %x", k, got, v)
		}
	}
	return nil
}

func TestVerifBoundedC11(t *testing.T) {
	iters := 500
	if v, err := strconv.Atoi(os.Getenv("VERIF_BOUNDED_ITERS")); err == nil {
		iters = v
	}
	seed, _ := strconv.Atoi(os.Getenv("VERIF_SEED"))
	r := rand.New(rand.NewSource(int64(seed)*7919 + 11))
	vals := [][]byte{[]byte("a"), []byte("shared value"), []byte("b")}
	for iter := 0; iter < iters; iter++ {
		mode := ModeLatest
		if iter%2 == 1 {
			mode = ModeGC
		}
		st := storage.NewMemCachedStore(storage.NewMemoryStore())
		tr := NewTrie(nil, mode, st)
		expected := map[string][]byte{}
		var hist []string
		gen := func() []byte {
			k := make([]byte, 1+r.Intn(3))
			for i := range k {
				k[i] = []byte{0x10, 0x11, 0x20}[r.Intn(3)]
			}
			return k
		}
		nblocks := 2 + r.Intn(6)
		for b := 1; b <= nblocks; b++ {
			nch := 1 + r.Intn(4)
			changes := map[string][]byte{}
			for c := 0; c < nch; c++ {
				k := gen()
				if r.Intn(3) == 0 {
					changes[string(k)] = nil
				} else {
					changes[string(k)] = vals[r.Intn(len(vals))]
				}
			}
			batch := r.Intn(3) != 0
			hist = append(hist, fmt.Sprintf("block %d batch=%v %x", b, batch, changes))
			if batch {
				m := map[string][]byte{}
				for k, v := range changes {
					m["\x70"+k] = v // MapToMPTBatch strips the storage prefix byte
				}
				if _, err := tr.PutBatch(MapToMPTBatch(m)); err != nil {
					t.Fatalf("FAILING-INPUT seed=%d iter=%d mode=%d %v: PutBatch: %v", seed, iter, mode, hist, err)
				}
			} else {
				for k, v := range changes {
					var err error
					if v == nil {
						err = tr.Delete([]byte(k))
					} else {
						err = tr.Put([]byte(k), v)
					}
					if err != nil {
						t.Fatalf("FAILING-INPUT seed=%d iter=%d mode=%d %v: %v", seed, iter, mode, hist, err)
					}
				}
			}
			for k, v := range changes {
				if v == nil {
					delete(expected, k)
				} else {
					expected[k] = v
				}
			}
			tr.Flush(uint32(b))
			if err := verifC11Check(st, tr.StateRoot(), mode, expected); err != nil {
				t.Fatalf("FAILING-INPUT seed=%d iter=%d mode=%d %v: %v", seed, iter, mode, hist, err)
			}
			switch r.Intn(4) {
			case 0:
				tr.Collapse(r.Intn(3))
				hist = append(hist, "collapse")
			case 1:
				root := tr.StateRoot()
				rc := tr.refcount
				if root.Equals(util.Uint256{}) {
					tr = NewTrie(nil, mode, st)
				} else {
					tr = NewTrie(NewHashNode(root), mode, st)
				}
				tr.refcount = rc // the state-root module keeps one trie (and its count cache) across blocks
				hist = append(hist, "reload")
			}
		}
	}
}
