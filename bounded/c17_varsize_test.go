package transaction

// Bounded stand-in for io.GetVarSize (C17: sizes are what the encoders write). GetVarSize works by
// reflection and is outside the contracts' reach (its callers carry stated call-site assumptions
// about it); this runs the real function on the shapes of value the code base passes to it -
// integers at the width boundaries, byte slices and strings, pointers to serializable values, slices
// of pointers and slices of VALUES whose pointer type is the serializable one ([]Attribute,
// []Signer, []Witness as a transaction holds them) - and compares with the length of the real
// encoding. VERIF_BOUNDED_ITERS random transactions on top of the fixed shapes.

import (
	"math/rand"
	"os"
	"strconv"
	"testing"

	"github.com/nspcc-dev/neo-go/pkg/io"
	"github.com/nspcc-dev/neo-go/pkg/util"
)

func verifEncLen(f func(w *io.BinWriter)) int {
	w := io.NewBufBinWriter()
	f(w.BinWriter)
	if w.Err != nil {
		panic(w.Err)
	}
	return len(w.Bytes())
}

func TestVerifBoundedC17VarSize(t *testing.T) {
	iters := 300
	if v, err := strconv.Atoi(os.Getenv("VERIF_BOUNDED_ITERS")); err == nil {
		iters = v
	}
	seed := int64(1)
	if v, err := strconv.ParseInt(os.Getenv("VERIF_SEED"), 10, 64); err == nil {
		seed = v
	}
	r := rand.New(rand.NewSource(seed))
	for _, n := range []int{0, 1, 0xfc, 0xfd, 0xfe, 0xffff, 0x10000, 0xffffffff} { // counts and lengths: values above 32 bits are not sizes of anything (getVarIntSize is specified up to 0xffffffff)
		if got, want := io.GetVarSize(n), verifEncLen(func(w *io.BinWriter) { w.WriteVarUint(uint64(n)) }); got != want {
			t.Fatalf("FAILING-INPUT GetVarSize(int %d)=%d, WriteVarUint writes %d bytes", n, got, want)
		}
	}
	for _, l := range []int{0, 1, 0xfc, 0xfd, 0x10000} {
		b := make([]byte, l)
		if got, want := io.GetVarSize(b), verifEncLen(func(w *io.BinWriter) { w.WriteVarBytes(b) }); got != want {
			t.Fatalf("FAILING-INPUT GetVarSize([]byte of %d)=%d, WriteVarBytes writes %d bytes", l, got, want)
		}
		if got, want := io.GetVarSize(string(b)), verifEncLen(func(w *io.BinWriter) { w.WriteString(string(b)) }); got != want {
			t.Fatalf("FAILING-INPUT GetVarSize(string of %d)=%d, WriteString writes %d bytes", l, got, want)
		}
	}
	randTx := func() *Transaction {
		tx := New(make([]byte, 1+r.Intn(40)), int64(r.Intn(1000)))
		ns := 1 + r.Intn(3)
		for i := 0; i < ns; i++ {
			s := Signer{Account: util.Uint160{byte(i + 1)}, Scopes: CalledByEntry}
			if r.Intn(2) == 0 {
				s.Scopes = CustomContracts
				s.AllowedContracts = make([]util.Uint160, 1+r.Intn(3))
			}
			tx.Signers = append(tx.Signers, s)
			tx.Scripts = append(tx.Scripts, Witness{InvocationScript: make([]byte, r.Intn(70)), VerificationScript: make([]byte, r.Intn(40))})
		}
		switch r.Intn(4) {
		case 0:
			tx.Attributes = append(tx.Attributes, Attribute{Type: HighPriority})
		case 1:
			tx.Attributes = append(tx.Attributes, Attribute{Type: OracleResponseT, Value: &OracleResponse{ID: uint64(r.Intn(100)), Code: Success, Result: make([]byte, r.Intn(300))}})
		case 2:
			tx.Attributes = append(tx.Attributes, Attribute{Type: NotValidBeforeT, Value: &NotValidBefore{Height: uint32(r.Intn(1000))}},
				Attribute{Type: ConflictsT, Value: &Conflicts{Hash: util.Uint256{1, 2, 3}}})
		}
		return tx
	}
	for i := 0; i < iters+4; i++ {
		tx := randTx()
		if got, want := io.GetVarSize(tx), len(tx.Bytes()); got != want {
			t.Fatalf("FAILING-INPUT GetVarSize(*Transaction)=%d, encoding has %d bytes (tx %x)", got, want, tx.Bytes())
		}
		if got, want := io.GetVarSize(tx.Attributes), verifEncLen(func(w *io.BinWriter) { w.WriteArray(tx.Attributes) }); got != want {
			t.Fatalf("FAILING-INPUT GetVarSize([]Attribute with %d elements)=%d, WriteArray writes %d bytes (slice of values whose pointer type is the serializable one)", len(tx.Attributes), got, want)
		}
		if got, want := io.GetVarSize(tx.Signers), verifEncLen(func(w *io.BinWriter) { w.WriteArray(tx.Signers) }); got != want {
			t.Fatalf("FAILING-INPUT GetVarSize([]Signer with %d elements)=%d, WriteArray writes %d bytes", len(tx.Signers), got, want)
		}
		if got, want := io.GetVarSize(tx.Scripts), verifEncLen(func(w *io.BinWriter) { w.WriteArray(tx.Scripts) }); got != want {
			t.Fatalf("FAILING-INPUT GetVarSize([]Witness with %d elements)=%d, WriteArray writes %d bytes", len(tx.Scripts), got, want)
		}
		ptrs := []*Transaction{tx, randTx()}
		if got, want := io.GetVarSize(ptrs), verifEncLen(func(w *io.BinWriter) { w.WriteArray(ptrs) }); got != want {
			t.Fatalf("FAILING-INPUT GetVarSize([]*Transaction)=%d, WriteArray writes %d bytes", got, want)
		}
		hs := make([]util.Uint256, r.Intn(4))
		if got, want := io.GetVarSize(hs), verifEncLen(func(w *io.BinWriter) { w.WriteArray(hs) }); got != want {
			t.Fatalf("FAILING-INPUT GetVarSize([]Uint256 of %d)=%d, WriteArray writes %d bytes", len(hs), got, want)
		}
	}
}
