package smartcontract

// Bounded stand-in for "script builders and their parsers" (C18): the verification scripts the
// builders produce are what the parsers recognise, with the same m and the same keys, over the
// whole m-of-n range including its edges (n = 1, 16/17 where the count's push changes width,
// 255/256, 1023, 1024 = the limit), and a key count the parser refuses is refused by the builder
// too (an account whose script nothing recognises cannot be spent from). The parsers' byte-level
// grammar is not under contract; this runs the real builder and the real parser.
// VERIF_BOUNDED_ITERS random (m, n) pairs on top of the boundary ones.

import (
	"bytes"
	"fmt"
	"strings"
	"math/rand"
	"os"
	"strconv"
	"testing"

	"github.com/nspcc-dev/neo-go/pkg/crypto/keys"
	"github.com/nspcc-dev/neo-go/pkg/smartcontract/scparser"
)

func TestVerifBoundedC18Scripts(t *testing.T) {
	iters := 200
	if v, err := strconv.Atoi(os.Getenv("VERIF_BOUNDED_ITERS")); err == nil {
		iters = v
	}
	seed := int64(1)
	if v, err := strconv.ParseInt(os.Getenv("VERIF_SEED"), 10, 64); err == nil {
		seed = v
	}
	rnd := rand.New(rand.NewSource(seed))
	known := map[string]bool{}
	for _, k := range strings.Split(os.Getenv("VERIF_KNOWN"), ",") {
		known[k] = true
	}
	nknown := 0
	const maxN = scparser.MaxMultisigKeys + 2
	all := make(keys.PublicKeys, maxN)
	for i := range all {
		p, err := keys.NewPrivateKey()
		if err != nil {
			t.Fatal(err)
		}
		all[i] = p.PublicKey()
	}
	check := func(m, n int) {
		pubs := make(keys.PublicKeys, n)
		copy(pubs, all[:n])
		script, err := CreateMultiSigRedeemScript(m, pubs)
		_, _, parses := scparser.ParseMultiSigContract(script)
		if err != nil {
			if m >= 1 && m <= n && n <= scparser.MaxMultisigKeys {
				t.Fatalf("FAILING-INPUT m=%d n=%d: builder refuses a configuration within the limits: %v", m, n, err)
			}
			return
		}
		if n > scparser.MaxMultisigKeys && m >= 1 && m <= n && m <= scparser.MaxMultisigKeys && !parses && known["builder-accepts-over-1024-keys"] {
			// listed in /verif/known_findings.json (D15): reported by the check as a known finding
			if nknown == 0 {
				fmt.Printf("KNOWN-HIT builder-accepts-over-1024-keys m=%d n=%d: CreateMultiSigRedeemScript returns a script that ParseMultiSigContract refuses\n", m, n)
			}
			nknown++
			return
		}
		if n > scparser.MaxMultisigKeys || m < 1 || m > n {
			t.Fatalf("FAILING-INPUT m=%d n=%d: builder produced a script for a configuration outside the limits (parser accepts it: %v)", m, n, parses)
		}
		gm, gpubs, ok := scparser.ParseMultiSigContract(script)
		if !ok {
			t.Fatalf("FAILING-INPUT m=%d n=%d: the parser does not recognise the builder's script", m, n)
		}
		if gm != m || len(gpubs) != n {
			t.Fatalf("FAILING-INPUT m=%d n=%d: parsed back as %d of %d", m, n, gm, len(gpubs))
		}
		// builder sorts the keys: pubs is sorted in place by it
		for i := range gpubs {
			if !bytes.Equal(gpubs[i], pubs[i].Bytes()) {
				t.Fatalf("FAILING-INPUT m=%d n=%d: key %d differs after the round trip", m, n, i)
			}
		}
		if !scparser.IsMultiSigContract(script) || !scparser.IsStandardContract(script) || scparser.IsSignatureContract(script) {
			t.Fatalf("FAILING-INPUT m=%d n=%d: classification of the builder's script is wrong", m, n)
		}
	}
	for _, n := range []int{1, 2, 3, 15, 16, 17, 31, 32, 33, 127, 128, 129, 255, 256, 257, 1023, 1024, 1025, 1026} {
		for _, m := range []int{0, 1, 2, n / 2, n/2 + 1, n - 1, n, n + 1} {
			check(m, n)
		}
	}
	for i := 0; i < iters; i++ {
		n := 1 + rnd.Intn(maxN)
		check(rnd.Intn(n+2), n)
	}
	// single-signature accounts
	for i := 0; i < 16; i++ {
		s := all[i].GetVerificationScript()
		pk, ok := scparser.ParseSignatureContract(s)
		if !ok || !bytes.Equal(pk, all[i].Bytes()) || !scparser.IsSignatureContract(s) || scparser.IsMultiSigContract(s) || !scparser.IsStandardContract(s) {
			t.Fatalf("FAILING-INPUT key %x: signature script does not parse back", all[i].Bytes())
		}
	}
}
