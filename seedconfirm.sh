#!/bin/bash
# usage: seedconfirm.sh <worktree> <out_dir> <pkg dir relative> <seeded id>
# confirms: demo passes on clean tree, fails with the patch, existing package tests pass with the patch
wt=$1; out=$2; pkg=$3; id=$4
export GOFLAGS=-mod=mod GOPROXY=off
cd $wt || exit 2
git checkout -q -- . 2>/dev/null; find . -name 'verif_contracts*.go' -delete
cp $out/demo_test.go $pkg/zz_seed_demo_test.go
echo "--- demo on clean tree"; go test -count=1 -run 'TestSeedDemo$' ./$pkg/ 2>&1 | tail -2; r1=${PIPESTATUS[0]}
git apply $out/patch.diff || { echo "PATCH FAILS"; rm -f $pkg/zz_seed_demo_test.go; exit 2; }
echo "--- demo with change"; go test -count=1 -run 'TestSeedDemo$' ./$pkg/ 2>&1 | tail -3; r2=${PIPESTATUS[0]}
rm -f $pkg/zz_seed_demo_test.go
echo "--- build + existing tests of the package with change"; go build ./... 2>&1 | tail -2; go test -count=1 -skip 'TestUT$' ./$pkg/ 2>&1 | tail -2; r3=${PIPESTATUS[0]}
git checkout -q -- . ; find . -name 'verif_contracts*.go' -delete
echo "RESULT clean=$r1 changed=$r2 existing=$r3"
if [ $r1 -eq 0 ] && [ $r2 -ne 0 ] && [ $r3 -eq 0 ]; then
  mkdir -p /verif/seeded/$id && cp $out/patch.diff $out/demo_test.go $out/notes.txt /verif/seeded/$id/ && echo "KEPT $id"
fi
