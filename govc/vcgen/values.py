"""Value constructors and comparisons over the leaf representation."""
import z3
from .sym import I, B, Val, scalar, sort_of, fresh_name, pathstr, OutOfSubset, EngineError, MATHINT
from . import ops


def zero_leaf(sortdesc):
    if sortdesc == 'I':
        return z3.IntVal(0)
    if sortdesc == 'B':
        return z3.BoolVal(False)
    return z3.K(I, zero_leaf(sortdesc[1]))


def zero_val(types, t):
    return Val(t, {p: zero_leaf(s) for (p, s, role) in types.leaves(t)})


def fresh_val(types, t, name):
    lv = {}
    for (p, s, role) in types.leaves(t):
        lv[p] = z3.Const(fresh_name(name + pathstr(p)), sort_of(s))
    return Val(t, lv)


def named_val(types, t, name):
    """deterministically named symbolic value (function inputs: names appear in models)"""
    lv = {}
    for (p, s, role) in types.leaves(t):
        lv[p] = z3.Const(name + pathstr(p), sort_of(s))
    return Val(t, lv)


def mathint(term):
    if isinstance(term, int):
        term = z3.IntVal(term)
    return scalar(MATHINT, term)


def boolv(term):
    if isinstance(term, bool):
        term = z3.BoolVal(term)
    return scalar('bool', term)


def ite_val(c, a, b):
    if a.lv is None or b.lv is None:
        raise OutOfSubset('merging interior pointers')
    lv = {}
    for p in a.lv:
        lv[p] = z3.If(c, a.lv[p], b.lv[p])
    return Val(a.t, lv)


def eq_vals(types, a, b, st=None):
    """Go == on two values of (assignable) types; returns z3 Bool"""
    ka = types.kind(a.t)
    kb = types.kind(b.t)
    if ka == 'nil' or a.t == '$nil':
        return is_nil(types, b)
    if kb == 'nil' or b.t == '$nil':
        return is_nil(types, a)
    if ka == 'iface' and kb != 'iface':
        b = box(types, b, st)
        kb = 'iface'
    if kb == 'iface' and ka != 'iface':
        a = box(types, a, st)
        ka = 'iface'
    if ka == 'ptr' and (a.lv is None or b.lv is None):
        la, lb = a.loc, b.loc
        if a.lv is None and b.lv is None and la is not None and lb is not None:
            if la.fam != lb.fam or la.tk != lb.tk or la.static_path() != lb.static_path():
                return z3.BoolVal(False)
            cs = [la.ref == lb.ref] + [x == y for x, y in zip(la.indices(), lb.indices())]
            return z3.And(cs)
        # interior pointer against a plain pointer value: undetermined in this memory model
        return z3.Bool(fresh_name('ptreq_unknown'))
    if ka in ('bool', 'int', 'ptr', 'map', 'chan', 'func', 'unsafeptr', 'float'):
        return a.term == b.term
    if ka == 'string':
        return seq_eq(a.lv[('s',)], z3.IntVal(0), a.lv[('n',)], b.lv[('s',)], z3.IntVal(0), b.lv[('n',)])
    if ka == 'iface':
        return z3.And(a.lv[('t',)] == b.lv[('t',)], z3.Or(a.lv[('t',)] == 0, a.lv[('p',)] == b.lv[('p',)]))
    if ka == 'struct':
        cs = []
        for f in types.fields(a.t):
            pre = ('.' + f['name'],)
            cs.append(eq_vals(types, a.sub(pre, f['type']), b.sub(pre, f['type']), st))
        return z3.And(cs) if cs else z3.BoolVal(True)
    if ka == 'array':
        n = types.desc(a.t)['len']
        et = types.elem(a.t)
        if n <= 64:
            cs = [eq_vals(types, index_array_val(types, a, z3.IntVal(i)), index_array_val(types, b, z3.IntVal(i)), st)
                  for i in range(n)]
            return z3.And(cs) if cs else z3.BoolVal(True)
        k = z3.Int(fresh_name('k'))
        body = eq_vals(types, index_array_val(types, a, k), index_array_val(types, b, k), st)
        return z3.ForAll([k], z3.Implies(z3.And(k >= 0, k < n), body))
    if ka == 'slice':
        if ops.const_val(b.lv[('b',)]) == 0:
            return a.lv[('b',)] == 0
        if ops.const_val(a.lv[('b',)]) == 0:
            return b.lv[('b',)] == 0
        raise OutOfSubset('slice comparison')
    raise OutOfSubset('comparison of kind ' + ka)


def seq_eq(a, ao, an, b, bo, bn):
    """equality of byte sequences a[ao:ao+an] and b[bo:bo+bn]"""
    ca = ops.const_val(an)
    cb = ops.const_val(bn)
    n = ca if ca is not None else cb
    if n is not None and n <= 64:
        cs = [an == bn] + [z3.Select(a, ao + i) == z3.Select(b, bo + i) for i in range(n)]
        return z3.And(cs)
    k = z3.Int(fresh_name('k'))
    return z3.And(an == bn, z3.ForAll([k], z3.Implies(z3.And(k >= 0, k < an),
                                                     z3.Select(a, ao + k) == z3.Select(b, bo + k))))


def is_nil(types, v):
    k = types.kind(v.t)
    if k in ('ptr', 'map', 'chan', 'func', 'unsafeptr'):
        if v.lv is None:
            return z3.BoolVal(False)
        return v.term == 0
    if k == 'slice':
        return v.lv[('b',)] == 0
    if k == 'iface':
        return v.lv[('t',)] == 0
    raise OutOfSubset('nil comparison of kind ' + k)


def index_array_val(types, a, idx):
    et = types.elem(a.t)
    lv = {}
    for (p, s, role) in types.leaves(et):
        lv[p] = z3.Select(a.lv[('[]',) + p], idx)
    return Val(et, lv)


def update_array_val(types, a, idx, v):
    lv = dict(a.lv)
    for p, t in v.lv.items():
        lv[('[]',) + p] = z3.Store(a.lv[('[]',) + p], idx, t)
    return Val(a.t, lv)


def field_val(types, v, fname):
    for f in types.fields(v.t):
        if f['name'] == fname:
            return v.sub(('.' + fname,), f['type'])
    raise EngineError('no field %s in %s' % (fname, v.t))


def set_field_val(types, v, fname, fv):
    lv = dict(v.lv)
    for p, t in fv.lv.items():
        lv[('.' + fname,) + p] = t
    return Val(v.t, lv)


def box(types, v, st):
    """MakeInterface: (tag, payload). Single-Int-leaf values are their own payload;
    others get a fresh payload id related to the leaves by per-type unbox functions."""
    if types.kind(v.t) == 'iface':
        return v
    tag = z3.IntVal(types.typeid(v.t))
    lvs = types.leaves(v.t)
    if len(lvs) == 1 and lvs[0][1] == 'I':
        if v.lv is None:
            # pointer into the middle of an object: an opaque payload derived from the location;
            # the location travels with the value so that callees' writes can be accounted for
            l = v.loc
            return Val('any', {('t',): tag, ('p',): interior_handle(l)}, loc=l)
        return Val('any', {('t',): tag, ('p',): v.lv[lvs[0][0]]})
    if len(lvs) == 0:
        return Val('any', {('t',): tag, ('p',): z3.IntVal(0)})
    if len(lvs) == 1 and lvs[0][1] == 'B':
        return Val('any', {('t',): tag, ('p',): ops.bool_to_int(v.lv[lvs[0][0]])})
    # structured value: the payload is a function of the value (equal values box to equal
    # interfaces); the per-type unbox functions are its inverses
    args = canon_args(types, v)
    pk = ops.uf('boxpack_%d' % types.typeid(v.t), *([a.sort() for a in args] + [I]))
    p = pk(*args)
    if st is not None:
        for (path, s, role) in lvs:
            f = ops.uf('unbox_%d%s' % (types.typeid(v.t), pathstr(path)), I, sort_of(s))
            st.assume(f(p) == v.lv[path])
    return Val('any', {('t',): tag, ('p',): p})


def unbox(types, iv, t, st=None):
    lvs = types.leaves(t)
    p = iv.lv[('p',)]
    if len(lvs) == 1 and lvs[0][1] == 'I':
        return Val(t, {lvs[0][0]: p})
    if len(lvs) == 0:
        return Val(t, {})
    if len(lvs) == 1 and lvs[0][1] == 'B':
        return Val(t, {lvs[0][0]: p != 0})
    lv = {}
    for (path, s, role) in lvs:
        f = ops.uf('unbox_%d%s' % (types.typeid(t), pathstr(path)), I, sort_of(s))
        lv[path] = f(p)
    return Val(t, lv)


def strkey(v, st=None):
    """abstract value of a byte sequence (what a string-keyed map or an uninterpreted
    specification function sees of it): a function of length and content"""
    f = ops.uf('strkey', z3.ArraySort(I, I), I, I)
    if st is not None:
        try:
            st.assume(strkey_axiom(), definitional=True)
        except TypeError:
            st.assume(strkey_axiom())
    return f(v.lv[('s',)], v.lv[('n',)])


def strkey_packed(v, st):
    """key of a byte string: for a string whose length is a known small constant the key is
    also an injective function of its bytes (equal to the abstract value), so that equality and
    disequality of such keys follow from the bytes without quantifier reasoning"""
    t = strkey(v, st)
    if st is None:
        return t
    kt = getattr(st, 'keyterms', None)
    if kt is not None and all(not t.eq(x) for x in kt):
        kt.append(t)
        for q in getattr(st, 'keyfacts', []):
            st.assume(z3.substitute_vars(q.body(), t))
    n = v.lv[('n',)]
    c = ops.const_val(n)
    if c is None:
        cx = getattr(st, 'cx', None)
        c = cx.implied_const(n) if cx is not None and hasattr(cx, 'implied_const') else None
    if c is None or c < 0 or c > 40:
        return t
    a = v.lv[('s',)]
    args = [z3.Select(a, i) for i in range(c)]
    f = ops.uf('strpack_%d' % c, *([I] * c + [I]))
    p = f(*args) if c > 0 else ops.uf('strpack_0', I)()
    st.assume(p == t)
    st.assume(ops.uf('strpack_len', I, I)(p) == c)
    for i, x in enumerate(args):
        st.assume(ops.uf('strpack_%d_inv%d' % (c, i), I, I)(p) == x)
    return t


_STRKEY_AX = []


def strkey_axiom():
    """extensionality of strkey with an explicit difference witness: sequences with different
    abstract values differ in length or at some index below it (instances arise for pairs of
    strkey terms only and create no new ones)"""
    if not _STRKEY_AX:
        A = z3.ArraySort(I, I)
        f = ops.uf('strkey', A, I, I)
        d = ops.uf('strdiff', A, A, I, I)
        a, b = z3.Const('sk_a', A), z3.Const('sk_b', A)
        n, m = z3.Int('sk_n'), z3.Int('sk_m')
        w = d(a, b, n)
        _STRKEY_AX.append(z3.ForAll([a, n, b, m],
                                    z3.Implies(z3.And(n == m, f(a, n) != f(b, m)),
                                               z3.And(w >= 0, w < n, z3.Select(a, w) != z3.Select(b, w))),
                                    patterns=[z3.MultiPattern(f(a, n), f(b, m))]))
    return _STRKEY_AX[0]


def key_term(types, v, st=None):
    """canonical Int key of a value used as a map key"""
    if v.t == '$key':
        return v.lv[()]
    k = types.kind(v.t)
    if k in ('int', 'ptr', 'chan', 'func', 'map', 'unsafeptr'):
        return v.term
    if k == 'bool':
        return ops.bool_to_int(v.term)
    args = flat_key_args(types, v)
    if args is None:
        # strings etc.: congruence only
        if k == 'string':
            return strkey_packed(v, st)
        raise OutOfSubset('map key of kind ' + k)
    name = 'pack_%d' % types.typeid(types.under(v.t))
    f = ops.uf(name, *([I] * len(args) + [I]))
    t = f(*args)
    if st is not None:
        for i, a in enumerate(args):
            g = ops.uf('%s_inv%d' % (name, i), I, I)
            st.assume(g(t) == a)
    else:
        PACK_UNDER_BINDER.add((name, len(args)))
    return t


PACK_UNDER_BINDER = set()
_PACK_AX = {}


def pack_axioms():
    """injectivity of the key packing functions that were applied under a binder (where the
    per-term inverse facts cannot be stated): pack_inv_i(pack(a0..an)) == a_i, triggered by the
    application itself"""
    out = []
    for (name, n) in sorted(PACK_UNDER_BINDER):
        if (name, n) not in _PACK_AX:
            f = ops.uf(name, *([I] * n + [I]))
            xs = [z3.Int('pk_%s_%d' % (name, i)) for i in range(n)]
            t = f(*xs)
            body = z3.And([ops.uf('%s_inv%d' % (name, i), I, I)(t) == xs[i] for i in range(n)])
            _PACK_AX[(name, n)] = z3.ForAll(xs, body, patterns=[t])
        out.append(_PACK_AX[(name, n)])
    return out


def flat_key_args(types, v):
    k = types.kind(v.t)
    if k in ('int', 'ptr', 'chan', 'func', 'map'):
        return [v.term]
    if k == 'bool':
        return [ops.bool_to_int(v.term)]
    if k == 'struct':
        out = []
        for f in types.fields(v.t):
            a = flat_key_args(types, v.sub(('.' + f['name'],), f['type']))
            if a is None:
                return None
            out += a
        return out
    if k == 'array':
        n = types.desc(v.t)['len']
        if n > 64:
            return None
        out = []
        for i in range(n):
            a = flat_key_args(types, index_array_val(types, v, z3.IntVal(i)))
            if a is None:
                return None
            out += a
        return out
    if k == 'iface':
        return [v.lv[('t',)], v.lv[('p',)]]
    return None


def canon_args(types, v):
    """terms identifying a value: small fixed arrays are expanded to their elements"""
    k = types.kind(v.t)
    if k == 'struct':
        out = []
        for f in types.fields(v.t):
            out += canon_args(types, v.sub(('.' + f['name'],), f['type']))
        return out
    if k == 'array' and types.desc(v.t)['len'] <= 64:
        out = []
        for i in range(types.desc(v.t)['len']):
            out += canon_args(types, index_array_val(types, v, z3.IntVal(i)))
        return out
    return [v.lv[p] for (p, s, role) in types.leaves(v.t)]


_INTPTR = {}


def interior_handle(l):
    """an integer standing for a pointer into the middle of an object: a function of the
    object's reference and the indices on the access path (the path itself is in the name)"""
    import zlib
    sig = (l.fam, l.tk, tuple((s[0], s[1] if s[0] == 'f' else None) for s in l.steps), l.t)
    name = 'intptr_%08x' % (zlib.crc32(repr(sig).encode()) & 0xffffffff)
    _INTPTR[name] = sig
    f = ops.uf(name, *([I] * (1 + len(l.indices())) + [I]))
    return f(l.ref, *l.indices())


def loc_of_handle(term):
    """inverse of interior_handle on terms that are syntactically a handle; None otherwise;
    raises when a handle is buried inside another term (e.g. merged by an if-then-else)"""
    from .sym import Loc
    t = z3.simplify(term)
    if z3.is_app(t) and t.decl().name() in _INTPTR:
        fam, tk, steps, typ = _INTPTR[t.decl().name()]
        args = t.children()
        ref = args[0]
        idxs = list(args[1:])
        out = []
        for (k, nm) in steps:
            if k == 'f':
                out.append(('f', nm))
            else:
                out.append(('i', idxs.pop(0)))
        return Loc(fam, tk, ref, out, typ)
    todo = [t]
    seen = set()
    while todo:
        x = todo.pop()
        if x.get_id() in seen:
            continue
        seen.add(x.get_id())
        if z3.is_app(x) and x.decl().name() in _INTPTR:
            raise OutOfSubset('pointer value mixes interior pointers (merged or conditional)')
        todo.extend(x.children())
    return None
