"""Contract files: //@ lines in comment-only Go files.

Clause grammar (one clause per //@ line; a //@ line whose text starts with two or
more spaces continues the previous clause):

  package <import path>               (optional; default derived from directory)
  import <alias> <import path>        (package aliases usable in expressions)
  func <RelName>                      start of a function contract
  assumed                             contract is trusted, body not verified
  requires[label] <expr>
  ensures[label] <expr>
  modifies <loc>, <loc>, ...          frame; default: nothing
  may-panic                           panics are not obligations in this function
  panics-if <expr>                    panics allowed only under expr (entry state)
  loop <k> invariant[label] <expr>
  loop <k> decreases <expr>
  loop <k> exit[label] <expr>
  loop <k> modifies <loc>, ...
  loop <k> unroll <n>
  pure                                callee has no side effects (for assumed contracts)
  spec <name>(<params>) <type> [decreases <expr>] = <expr>
  spec <name>(<params>) <type>        uninterpreted
  ghost <Type>.<field> <type>
  iface <Iface>.<method>              start of an interface-method contract
  lemma <name>(<params>) : <expr>
  prop <id>[,<id>...]                 properties the following function contracts serve
  case <name>                         behaviour of the current function (own requires/ensures)
"""
import os
import re
from . import exprparse

MOD = 'github.com/nspcc-dev/neo-go'


class Clause:
    def __init__(self, label, expr, text, line, file):
        self.label = label
        self.expr = expr
        self.text = text
        self.line = line
        self.file = file

    def __repr__(self):
        return 'Clause(%s: %s)' % (self.label, self.text)


class LoopSpec:
    def __init__(self):
        self.invariants = []
        self.decreases = None
        self.modifies = []
        self.unroll = None
        self.exits = []
        self.steps = []


class FuncContract:
    def __init__(self, key, pkg, file, line):
        self.key = key
        self.pkg = pkg
        self.file = file
        self.line = line
        self.requires = []
        self.ensures = []
        self.modifies = None  # None = not stated (=> nothing for verified funcs)
        self.loops = {}
        self.assumed = False
        self.may_panic = False
        self.panics_if = []
        self.pure = False
        self.props = []
        self.imports = {}
        self.is_iface = False
        self.nowrap = False
        self.skip_frame = False
        self.calls = []   # call-site obligations: (callee pattern, Clause)
        self.call_ensures = []   # call-site assumptions about callee results: (pattern, Clause)
        self.seeds = []   # (param, Go expression) extra replay candidates
        self.seed_helpers = []
        self.seed_imports = {}
        self.inline = False
        self.opts = {}
        self.case = None
        self.has_cases = False

    def loop(self, k):
        if k not in self.loops:
            self.loops[k] = LoopSpec()
        return self.loops[k]


class SpecFunc:
    def __init__(self, name, pkg, params, rtype, body, decreases, text, file, line, imports):
        self.name = name
        self.pkg = pkg
        self.params = params  # [(name, typetext)]
        self.rtype = rtype
        self.body = body
        self.decreases = decreases
        self.text = text
        self.file = file
        self.line = line
        self.imports = imports


class Lemma:
    def __init__(self, name, pkg, params, expr, text, file, line, imports, props):
        self.name = name
        self.pkg = pkg
        self.params = params
        self.expr = expr
        self.text = text
        self.file = file
        self.line = line
        self.imports = imports
        self.props = props
        self.requires = []


class ContractSet:
    def __init__(self):
        self.funcs = {}     # key -> FuncContract
        self.specs = {}     # (pkg, name) -> SpecFunc
        self.ghosts = {}    # typename (pkg.T) -> {field: typetext}
        self.lemmas = []
        self.files = []
        self.refines = {}       # (concrete type key text, pkg) entries: list of dicts
        self.pkg_invs = {}      # pkg -> [Clause]: facts about package-level variables, assumed at entry
        self.execs = {}         # (pkg, spec name) -> Go function literal
        self.exec_imports = {}  # pkg -> {alias: path}

    def spec(self, pkg, name):
        return self.specs.get((pkg, name))


def strip_comment(s):
    # remove trailing // comment outside string literals
    out = []
    i = 0
    instr = False
    while i < len(s):
        c = s[i]
        if instr:
            out.append(c)
            if c == '\\':
                i += 1
                if i < len(s):
                    out.append(s[i])
            elif c == '"':
                instr = False
        else:
            if c == '"':
                instr = True
                out.append(c)
            elif c == '/' and i + 1 < len(s) and s[i + 1] == '/':
                break
            else:
                out.append(c)
        i += 1
    return ''.join(out).rstrip()


def split_params(s):
    """'a int, b []byte' -> [('a','int'),('b','[]byte')] (names may share a type: 'a, b int')"""
    s = s.strip()
    if not s:
        return []
    parts = []
    depth = 0
    cur = ''
    for c in s:
        if c in '([{':
            depth += 1
        if c in ')]}':
            depth -= 1
        if c == ',' and depth == 0:
            parts.append(cur.strip())
            cur = ''
        else:
            cur += c
    parts.append(cur.strip())
    res = []
    pending = []
    for p in parts:
        m = re.match(r'^([A-Za-z_][A-Za-z0-9_]*)\s+(.+)$', p)
        if m:
            for q in pending:
                res.append((q, m.group(2)))
            pending = []
            res.append((m.group(1), m.group(2)))
        else:
            pending.append(p)
    if pending:
        raise ValueError('parameter without type: %r' % s)
    return res


def split_top(s, sep=','):
    parts = []
    depth = 0
    cur = ''
    for c in s:
        if c in '([{':
            depth += 1
        if c in ')]}':
            depth -= 1
        if c == sep and depth == 0:
            parts.append(cur.strip())
            cur = ''
        else:
            cur += c
    if cur.strip():
        parts.append(cur.strip())
    return parts


def pkg_of_file(path, repo='/repo'):
    d = os.path.dirname(os.path.abspath(path))
    rel = os.path.relpath(d, repo)
    return MOD + '/' + rel


def parse_file(path, cs, repo='/repo', default_pkg=None):
    pkg = default_pkg or pkg_of_file(path, repo)
    imports = {}
    clauses = []  # (lineNo, text)
    with open(path) as f:
        for n, line in enumerate(f, 1):
            s = line.strip()
            if not s.startswith('//@'):
                continue
            body = s[3:]
            if body.startswith('  ') and clauses:
                clauses[-1][1] += ' ' + strip_comment(body).strip()
                continue
            body = strip_comment(body).strip()
            if body:
                clauses.append([n, body])
    cs.files.append(path)
    cur = None
    props = []
    curlemma = None
    for n, text in clauses:
        m = re.match(r'^([a-z-]+)(\[[^\]]*\])?\s*(.*)$', text)
        if not m:
            raise ValueError('%s:%d: bad clause %r' % (path, n, text))
        kw, label, rest = m.group(1), m.group(2), m.group(3)
        label = label[1:-1] if label else None

        def mk(exprtext, lbl=None):
            try:
                e = exprparse.parse(exprtext)
            except exprparse.ParseError as ex:
                raise ValueError('%s:%d: %s' % (path, n, ex))
            return Clause(lbl if lbl is not None else label, e, exprtext, n, path)
        if kw == 'package':
            pkg = rest.strip()
            imports = {}
        elif kw == 'import':
            a, p = rest.split()
            imports[a] = p
        elif kw == 'prop':
            props = [x.strip() for x in rest.split(',') if x.strip()]
        elif kw == 'funcfield':
            # funcfield <Type>.<field>(<param names>): contract of a function-typed struct field;
            # assumed at calls through the field, an obligation of every function that
            # `implements` it (the functions assigned to the field)
            from .program import normfn
            mm = re.match(r'^([\w.]+)\.(\w+)\s*\(([^)]*)\)\s*$', rest)
            if not mm:
                raise ValueError('%s:%d: bad funcfield clause' % (path, n))
            key = normfn(pkg + '::' + mm.group(1) + '.' + mm.group(2))
            cur = FuncContract(key, pkg, path, n)
            cur.props = list(props)
            cur.imports = imports
            cur.is_iface = True
            cur.assumed = True
            cur.opts['funcfield'] = ','.join(x.strip() for x in mm.group(3).split(',') if x.strip())
            cs.funcs[key] = cur
            curlemma = None
        elif kw in ('func', 'iface'):
            from .program import normfn
            key = normfn(pkg + '::' + rest.strip())
            if key in cs.funcs:
                raise ValueError('%s:%d: duplicate contract for %s' % (path, n, key))
            cur = FuncContract(key, pkg, path, n)
            cur.props = list(props)
            cur.imports = imports
            cur.is_iface = (kw == 'iface')
            cs.funcs[key] = cur
            curlemma = None
        elif kw == 'cases':
            # cases <RelName>: continue the behaviours of a function whose contract was started
            # elsewhere (another file or another property)
            from .program import normfn
            key = normfn(pkg + '::' + rest.strip())
            if key not in cs.funcs:
                raise ValueError('%s:%d: cases of unknown contract %s' % (path, n, key))
            cur = cs.funcs[key]
            curlemma = None
        elif kw == 'case':
            # case <name>: a behaviour of the current function; the clauses given so far are
            # shared, the following ones (up to the next case/func) belong to this behaviour.
            # Each behaviour is verified on its own under its own precondition.
            import copy as _copy
            base = cs.funcs[cur.key.split('#')[0]]
            if not getattr(base, 'has_cases', False):
                base.has_cases = True
                base.base_snapshot = _copy.deepcopy(base)
            cname = rest.strip()
            ckey = base.key + '#' + cname
            if ckey in cs.funcs:
                raise ValueError('%s:%d: duplicate case %s' % (path, n, ckey))
            cc = _copy.deepcopy(base.base_snapshot)
            cc.key = ckey
            cc.case = cname
            cc.has_cases = False
            cc.line = n
            cc.opts.setdefault('uncovered', '100000')
            cc.props = list(props) if props else cc.props
            cc.imports = dict(cc.imports, **imports)
            cs.funcs[ckey] = cc
            cur = cc
        elif kw == 'implements':
            # implements <Iface>.<method>: the body must also satisfy that interface-method contract
            # (its ensures become obligations with recv bound to the boxed receiver; its requires
            # are assumed at entry)
            from .program import normfn
            nm = rest.strip()
            if '.' in nm.split('/')[-1] and nm.split('.')[0] in imports:
                a, r2 = nm.split('.', 1)
                ikey = normfn(imports[a] + '::' + r2)
            else:
                ikey = normfn(pkg + '::' + nm)
            cur.opts.setdefault('implements', '')
            cur.opts['implements'] = (cur.opts['implements'] + ' ' + ikey).strip()
        elif kw == 'assumed':
            cur.assumed = True
        elif kw == 'pure':
            cur.pure = True
        elif kw == 'nowrap':
            cur.nowrap = True
        elif kw == 'inline':
            cur.inline = True
        elif kw == 'opt':
            k, _, v = rest.partition(' ')
            cur.opts[k] = v.strip()
        elif kw == 'may-panic':
            cur.may_panic = True
        elif kw == 'allow-explicit-panic':
            cur.opts['explicit-panic'] = 'allowed'
        elif kw == 'panics-if':
            cur.panics_if.append(mk(rest))
            if cur.case is not None:
                cur.may_panic = False   # a behaviour that states its panic condition overrides may-panic
        elif kw == 'requires':
            if curlemma is not None:
                curlemma.requires.append(mk(rest))
            else:
                cur.requires.append(mk(rest))
        elif kw == 'ensures':
            c = mk(rest)
            if c.label is None:
                c.label = str(len(cur.ensures) + 1)
            cur.ensures.append(c)
        elif kw == 'modifies':
            if cur.modifies is None:
                cur.modifies = []
            for part in split_top(rest):
                cur.modifies.append(mk(part))
        elif kw == 'call':
            # call <callee-substring> requires <expr>
            mm = re.match(r'^(\S+)\s+(requires|ensures)(\[[^\]]*\])?\s+(.*)$', rest)
            if not mm:
                raise ValueError('%s:%d: bad call clause' % (path, n))
            c = mk(mm.group(4), mm.group(3)[1:-1] if mm.group(3) else None)
            if mm.group(2) == 'ensures':
                if c.label is None:
                    c.label = str(len(cur.call_ensures) + 1)
                cur.call_ensures.append((mm.group(1), c))
            else:
                if c.label is None:
                    c.label = str(len(cur.calls) + 1)
                cur.calls.append((mm.group(1), c))
        elif kw == 'loop':
            mm = re.match(r'^(\d+)\s+([a-z]+)(\[[^\]]*\])?\s*(.*)$', rest)
            if not mm:
                raise ValueError('%s:%d: bad loop clause' % (path, n))
            k = int(mm.group(1))
            sub = mm.group(2)
            lbl = mm.group(3)[1:-1] if mm.group(3) else None
            ls = cur.loop(k)
            if sub == 'invariant':
                c = mk(mm.group(4), lbl)
                if c.label is None:
                    c.label = str(len(ls.invariants) + 1)
                ls.invariants.append(c)
            elif sub == 'decreases':
                ls.decreases = mk(mm.group(4), lbl)
            elif sub == 'modifies':
                for part in split_top(mm.group(4)):
                    ls.modifies.append(mk(part, lbl))
            elif sub == 'unroll':
                ls.unroll = int(mm.group(4))
            elif sub == 'exit':
                # holds whenever the loop is left for code that goes on (not for a return or a
                # panic out of the loop): `loop k exit $i == len(xs)` - no early break
                c = mk(mm.group(4), lbl)
                if c.label is None:
                    c.label = str(len(ls.exits) + 1)
                ls.exits.append(c)
            elif sub == 'step':
                # relates the state at the end of an iteration to the state at its beginning
                # (`prev(e)`): checked at every back edge - `loop k step left == prev(left) - used`
                c = mk(mm.group(4), lbl)
                if c.label is None:
                    c.label = str(len(ls.steps) + 1)
                ls.steps.append(c)
            else:
                raise ValueError('%s:%d: bad loop clause kind %s' % (path, n, sub))
        elif kw == 'spec':
            mm = re.match(r'^([A-Za-z_][A-Za-z0-9_]*)\s*\((.*?)\)\s*([^=]*?)(?:\s+decreases\s+([^=]+?))?\s*(?:=\s*(.*))?$', rest)
            if not mm:
                raise ValueError('%s:%d: bad spec %r' % (path, n, rest))
            name, ps, rt, dec, body = mm.groups()
            # '=' inside body like '==' can confuse the regex: re-split on first ' = '
            idx = find_def_eq(rest)
            if idx >= 0:
                head, body = rest[:idx], rest[idx + 1:].strip()
            else:
                head, body = rest, None
            hd = head.strip()
            mm = re.match(r'^([A-Za-z_][A-Za-z0-9_]*)\s*\(', hd)
            name = mm.group(1)
            depth = 0
            endp = None
            for ci in range(mm.end() - 1, len(hd)):
                if hd[ci] == '(':
                    depth += 1
                elif hd[ci] == ')':
                    depth -= 1
                    if depth == 0:
                        endp = ci
                        break
            ps = hd[mm.end():endp]
            tail = hd[endp + 1:].strip()
            dec = None
            if ' decreases ' in ' ' + tail + ' ':
                tail, _, dec = tail.partition('decreases')
                dec = dec.strip()
            rt = tail.strip()
            sf = SpecFunc(name, pkg, split_params(ps), rt,
                          exprparse.parse(body) if body else None,
                          exprparse.parse(dec) if dec else None, rest, path, n, imports)
            cs.specs[(pkg, name)] = sf
        elif kw == 'refine':
            # refine <ConcreteType> <self-name> as <Iface>
            mm = re.match(r'^(\S+)\s+(\w+)\s+as\s+(\S+)$', rest)
            if not mm:
                raise ValueError('%s:%d: bad refine clause' % (path, n))
            currefine = {'type': mm.group(1), 'self': mm.group(2), 'iface': mm.group(3), 'pkg': pkg, 'imports': imports,
                         'ghosts': {}, 'specs': {}}
            cs.refines.setdefault(pkg, []).append(currefine)
        elif kw == 'refine-ghost':
            nm, _, code = rest.partition(' ')
            cs.refines[pkg][-1]['ghosts'][nm] = exprparse.parse(code.strip())
        elif kw == 'refine-spec':
            mm = re.match(r'^([\w.]+)\((.*?)\)\s*=\s*(.*)$', rest)
            if not mm:
                raise ValueError('%s:%d: bad refine-spec clause' % (path, n))
            cs.refines[pkg][-1]['specs'][mm.group(1)] = ([x.strip() for x in mm.group(2).split(',')], exprparse.parse(mm.group(3)))
        elif kw == 'pkg-invariant':
            cs.pkg_invs.setdefault(pkg, []).append(mk(rest))
        elif kw == 'exec':
            nm, _, code = rest.partition(' ')
            cs.execs[(pkg, nm)] = code.strip()
        elif kw == 'exec-import':
            a, p2 = rest.split()
            cs.exec_imports.setdefault(pkg, {})[a] = p2
        elif kw == 'seed':
            nm, _, code = rest.partition(' ')
            cur.seeds.append((nm, code.strip()))
        elif kw == 'seed-helper':
            cur.seed_helpers.append(rest)
        elif kw == 'seed-import':
            a, p2 = rest.split()
            cur.seed_imports[a] = p2
        elif kw == 'ghost':
            mm = re.match(r'^([\w./]+)\.(\w+)\s+(.+)$', rest)
            tname, fld, ftyp = mm.groups()
            if '.' not in tname and '/' not in tname:
                tname = pkg + '.' + tname
            ftyp = ftyp.strip()
            if ftyp.endswith(' zero'):
                # the field of a freshly allocated (zero) object is 0
                ftyp = ftyp[:-5].strip()
                if not hasattr(cs, 'ghost_zero'):
                    cs.ghost_zero = set()
                cs.ghost_zero.add((tname, fld))
            cs.ghosts.setdefault(tname, {})[fld] = ftyp
        elif kw == 'lemma':
            mm = re.match(r'^([A-Za-z_][A-Za-z0-9_]*)\s*\((.*?)\)\s*:\s*(.*)$', rest)
            if not mm:
                raise ValueError('%s:%d: bad lemma' % (path, n))
            curlemma = Lemma(mm.group(1), pkg, split_params(mm.group(2)), exprparse.parse(mm.group(3)),
                             rest, path, n, imports, list(props))
            cs.lemmas.append(curlemma)
        else:
            raise ValueError('%s:%d: unknown clause keyword %r' % (path, n, kw))
    return cs


def find_def_eq(s):
    """index of the '=' that separates a spec head from its body (not ==, <=, >=, !=)"""
    depth = 0
    for i, c in enumerate(s):
        if c in '([{':
            depth += 1
        elif c in ')]}':
            depth -= 1
        elif c == '=' and depth == 0:
            prev = s[i - 1] if i > 0 else ''
            nxt = s[i + 1] if i + 1 < len(s) else ''
            if prev in '=<>!' or nxt == '=':
                continue
            return i
    return -1


def load(paths, repo='/repo'):
    cs = ContractSet()
    for p in paths:
        parse_file(p, cs, repo)
    return cs
