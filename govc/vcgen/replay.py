"""Replay: turn a failed obligation into a Go test run against the real code
(go test -overlay, nothing written into the repository) with a bounded search
around the solver's candidate input."""
import os
import re
import json
import itertools
import subprocess
from .sym import MATHINT
from .gogen import GoGen, Untranslatable, PRELUDE

MOD = 'github.com/nspcc-dev/neo-go'


def sanitize(s):
    return re.sub(r'[^A-Za-z0-9_.-]+', '_', s)[:150]


def go_env():
    env = dict(os.environ)
    env['GOFLAGS'] = '-mod=mod'
    env['GOPROXY'] = 'off'
    env.pop('GOTOOLCHAIN', None)
    env.pop('GOSUMDB', None)
    return env


class Builder:
    """Go literals for model values"""

    def __init__(self, prog, gg):
        self.prog = prog
        self.types = prog.types
        self.gg = gg

    def lit(self, d, tk):
        types = self.types
        k = types.kind(tk)
        gt = self.gg.gotype(tk)
        if k == 'int':
            v = d.get('v', 0) if d else 0
            if not isinstance(v, int):
                v = 0
            rng = types.int_range(tk)
            v = max(rng[0], min(rng[1], v))
            return '%s(%d)' % (gt, v)
        if k == 'bool':
            return 'true' if d and d.get('v') is True else 'false'
        if k == 'string':
            bs = (d or {}).get('bytes') or []
            return '%s("%s")' % (gt, ''.join('\\x%02x' % (b & 255 if isinstance(b, int) else 0) for b in bs))
        if k == 'slice':
            et = types.elem(tk)
            if types.kind(et) != 'int':
                raise Untranslatable('slice of ' + et)
            if d is None or d.get('base') == 0:
                return '%s(nil)' % gt
            n = d.get('len', 0)
            if not isinstance(n, int) or n < 0:
                n = 0
            n = min(n, 1 << 20)
            el = d.get('elems')
            if el is None:
                return 'make(%s, %d)' % (gt, n)
            return '%s{%s}' % (gt, ', '.join(str(x if isinstance(x, int) else 0) for x in el))
        if k == 'array':
            et = types.elem(tk)
            if types.kind(et) != 'int':
                raise Untranslatable('array of ' + et)
            el = (d or {}).get('elems') or []
            return '%s{%s}' % (gt, ', '.join(str(x if isinstance(x, int) else 0) for x in el))
        if k == 'struct':
            fs = []
            for f in types.fields(tk):
                fd = ((d or {}).get('fields') or {}).get(f['name'])
                fs.append('%s: %s' % (f['name'], self.lit(fd, f['type'])))
            return '%s{%s}' % (gt, ', '.join(fs))
        raise Untranslatable('no builder for ' + tk)

    def variations(self, d, tk):
        """boundary values around a model value"""
        types = self.types
        k = types.kind(tk)
        out = [self.lit(d, tk)]
        gt = self.gg.gotype(tk)
        if k == 'int':
            rng = types.int_range(tk)
            v = d.get('v', 0) if d and isinstance(d.get('v'), int) else 0
            cands = [v - 1, v + 1, 0, 1, 2, 0xfc, 0xfd, 0xfe, 0xff, 0x100, 0xfffe, 0xffff, 0x10000, 0xffffffff,
                     0x100000000, rng[1], rng[1] - 1, rng[0], -1, 16, 17, 32, 33, 0x7f, 0x80]
            for c in cands:
                if rng[0] <= c <= rng[1]:
                    s = '%s(%d)' % (gt, c)
                    if s not in out:
                        out.append(s)
        elif k == 'bool':
            out = ['true', 'false']
        elif k == 'string' or (k == 'slice' and types.kind(types.elem(tk)) == 'int'):
            pats = [[], [0], [0xff], [1], [0xfd, 1, 0], [0, 0], [0xff, 0xff], [0x80], [0x7f], [0, 0x80], [0xff, 0x7f],
                    [1, 2, 3], [0xfe, 1, 0, 0, 0], [2], [0, 0, 0, 0], [0x41] * 20, [0x41] * 21, [0x41] * 25, [0x31] * 34]
            for p in pats:
                if k == 'string':
                    s = '%s("%s")' % (gt, ''.join('\\x%02x' % b for b in p))
                else:
                    s = '%s{%s}' % (gt, ', '.join(str(b) for b in p)) if p else '%s{}' % gt
                if s not in out:
                    out.append(s)
            if k == 'slice':
                out.append('%s(nil)' % gt)
        return out


def make_replay(prog, prop, a, work, repo):
    """a: aggregated obligation (check.aggregate). returns (replay file path, failing input found)"""
    rdir = os.path.join(work, 'replay', prop)
    os.makedirs(rdir, exist_ok=True)
    base = os.path.join(rdir, sanitize(a['name']))
    bad = a['bad'][0] if a['bad'] else {}
    rec = {
        'property': prop, 'obligation': a['name'], 'kind': a['kind'], 'function': a['fn'],
        'clause': a.get('text'), 'pos': a.get('pos'), 'verdict': a['verdict'],
        'candidate_inputs': bad.get('inputs'), 'model_kind': bad.get('model_kind'),
        'solver_output': bad.get('solver_output'), 'stage2': bad.get('stage2'),
        'path_blocks': bad.get('trace'),
    }
    if bad.get('smt2'):
        with open(base + '.smt2', 'w') as f:
            f.write(bad['smt2'])
        rec['smt2'] = base + '.smt2'
    found = False
    try:
        src, pkgdir = gen_test(prog, a['fn'], bad.get('inputs'), repo)
        tpath = base + '_test.go'
        with open(tpath, 'w') as f:
            f.write(src)
        ov = base + '.overlay.json'
        with open(ov, 'w') as f:
            json.dump({'Replace': {os.path.join(pkgdir, 'verif_replay_zz_test.go'): tpath}}, f)
        rec['go_test'] = tpath
        rec['overlay'] = ov
        rec['pkgdir'] = pkgdir
        ok, out = run_go_test(rec, repo)
        rec['replay_output'] = out[-6000:]
        found = (ok is False) and ('FAILING-INPUT' in out)
        rec['failing_input_found'] = found
        m = re.findall(r'FAILING-INPUT.*', out)
        rec['failing_inputs'] = m[:5]
    except Untranslatable as ex:
        rec['replay_unavailable'] = 'contract or inputs not executable: %s' % ex
    except Exception as ex:
        rec['replay_unavailable'] = 'replay generation failed: %s' % ex
    if not found:
        rec['note'] = 'no-failing-input-found: the named obligation was not discharged; solver output attached'
    path = base + '.json'
    with open(path, 'w') as f:
        json.dump(rec, f, indent=1, default=str)
    return path, found


def run_go_test(rec, repo):
    rel = os.path.relpath(rec['pkgdir'], repo)
    cmd = ['go', 'test', '-tags', 'verif', '-overlay', rec['overlay'], '-vet=off', '-count=1', '-timeout', '120s',
           '-run', 'TestVerifReplayZZ', './' + rel]
    rec['command'] = 'cd %s && GOFLAGS=-mod=mod GOPROXY=off %s' % (repo, ' '.join(cmd))
    try:
        p = subprocess.run(cmd, cwd=repo, env=go_env(), capture_output=True, text=True, timeout=400)
    except subprocess.TimeoutExpired:
        return None, 'timeout'
    out = p.stdout + p.stderr
    return p.returncode == 0, out


def run_replay_file(path):
    with open(path) as f:
        rec = json.load(f)
    if rec.get('kind') == 'bounded':
        # re-run the bounded stand-in with the recorded seed and iteration count
        import subprocess
        b = rec['bounded']
        verif = os.path.dirname(os.path.dirname(os.path.dirname(os.path.abspath(__file__))))
        repo = os.environ.get('VERIF_REPO', '/repo')
        wd = os.path.join(os.environ.get('VERIF_WORK') or os.path.join(verif, 'work'), 'bounded', rec['property'])
        os.makedirs(wd, exist_ok=True)
        ov = os.path.join(wd, b['name'] + '.replay.overlay.json')
        with open(ov, 'w') as f:
            json.dump({'Replace': {os.path.join(repo, b['pkg'], 'zz_verif_bounded_%s_test.go' % b['name']): os.path.join(verif, b['file'])}}, f)
        env = dict(os.environ)
        env.update({'GOFLAGS': '-mod=mod', 'GOPROXY': 'off', 'VERIF_BOUNDED_ITERS': str(rec['iterations']), 'VERIF_SEED': str(rec['seed'])})
        env.pop('GOTOOLCHAIN', None)
        env.pop('GOSUMDB', None)
        pr = subprocess.run(['go', 'test', '-overlay', ov, '-vet=off', '-count=1', '-timeout', '600s', '-run', b['run'], './' + b['pkg'] + '/'],
                            cwd=repo, env=env, capture_output=True, text=True)
        out = pr.stdout + pr.stderr
        print(out[-4000:])
        if pr.returncode != 0 and 'FAILING-INPUT' in out:
            print('REPRODUCED: the real code fails the bounded check on the input above')
            return 1
        print('not reproduced')
        return 0
    print('obligation: %s' % rec['obligation'])
    print('function:   %s' % rec['function'])
    print('clause:     %s' % rec.get('clause'))
    if rec.get('go_test') and os.path.exists(rec['go_test']):
        ok, out = run_go_test(rec, os.environ.get('VERIF_REPO', '/repo'))
        print(out[-4000:])
        if ok is False and 'FAILING-INPUT' in out:
            print('REPRODUCED: the real code violates the contract on the input above')
            return 1
        print('not reproduced by execution; solver verdict for the obligation follows')
    print('candidate inputs: %s' % json.dumps(rec.get('candidate_inputs'))[:2000])
    print('solver output: %s' % json.dumps(rec.get('solver_output'))[:3000])
    print('stage2: %s' % rec.get('stage2'))
    return 1


def gen_test(prog, fnkey, inputs, repo):
    types = prog.types
    fn = prog.funcs[fnkey.split('#')[0]]
    con = prog.cs.funcs[fnkey]
    pkg, rel = fnkey.split('::', 1)
    if '$' in rel:
        raise Untranslatable('closure')
    srcfile = fn['pos']['file']
    pkgdir = os.path.dirname(srcfile)
    pkgname = None
    with open(srcfile) as f:
        for line in f:
            m = re.match(r'^package\s+(\w+)', line)
            if m:
                pkgname = m.group(1)
                break
    params = fn.get('params') or []
    results = fn.get('results') or []
    env = {}
    gg = GoGen(prog, con.pkg, con.imports, env, pkg)
    bld = Builder(prog, gg)
    is_method = bool(fn.get('recv'))
    decls = []
    names = []
    varlists = []
    for p in params:
        tk = p['type']
        k = types.kind(tk)
        d = (inputs or {}).get(p['name'])
        if k == 'ptr':
            et = types.elem(tk)
            # pointer to a plain value: build the pointee
            seeds = [code for (nm, code) in con.seeds if nm == p['name']]
            if seeds:
                varlists.append((p['name'], tk, seeds, False))
                continue
            pd = None
            try:
                vs = bld.variations(pd, et) if types.kind(et) in ('int', 'bool', 'string', 'array', 'struct') else None
            except Untranslatable:
                vs = None
            if vs is None:
                raise Untranslatable('pointer parameter to %s (no replay seeds declared)' % et)
            varlists.append((p['name'], et, vs, True))
        else:
            vs = bld.variations(d, tk)
            extra = ['%s(%s)' % (gg.gotype(tk), code) for (nm, code) in con.seeds if nm == p['name']]
            varlists.append((p['name'], tk, vs[:1] + extra + vs[1:], False))
    # cartesian product, model first, capped
    total = 1
    for (_, _, vs, _) in varlists:
        total *= len(vs)
    cap = 3000
    combos = []
    if total <= cap:
        combos = list(itertools.product(*[vs for (_, _, vs, _) in varlists]))
    else:
        first = tuple(vs[0] for (_, _, vs, _) in varlists)
        combos.append(first)
        for i, (_, _, vs, _) in enumerate(varlists):
            for v in vs[1:]:
                c = list(first)
                c[i] = v
                combos.append(tuple(c))
        # pairs
        for i in range(len(varlists)):
            for j in range(i + 1, len(varlists)):
                for vi in varlists[i][2][1:8]:
                    for vj in varlists[j][2][1:8]:
                        c = list(first)
                        c[i] = vi
                        c[j] = vj
                        combos.append(tuple(c))
        combos = combos[:cap]
    # environment for translation
    body = []
    for (n, tk, vs, isptr) in varlists:
        gt = gg.gotype(tk)
        k = types.kind(tk)
        if isptr:
            env[n] = ('(&v_%s)' % n, '*' + tk)
            types.get('*' + tk)
            env['old_' + n] = ('(&old_%s)' % n, '*' + tk)
        else:
            env[n] = ('v_' + n, tk)
            env['old_' + n] = ('old_' + n, tk)
    gg.env = env
    reqs = []
    for c in con.requires:
        reqs.append(gg.tr(c.expr)[0])
    # results
    rnames = []
    rn = fn.get('resultnames') or []
    for i, r in enumerate(results):
        rnames.append('r%d' % i)
        env['result%d' % i] = ('r%d' % i, r['type'])
        if i < len(rn) and rn[i] and rn[i] != '_' and rn[i] not in env:
            env[rn[i]] = ('r%d' % i, r['type'])
    if results:
        env['result'] = ('r0', results[0]['type'])
        if types.get(results[-1]['type']).get('name') == 'error' and 'err' not in env:
            env['err'] = ('r%d' % (len(results) - 1), results[-1]['type'])
    enss = []
    skipped = []
    for c in con.ensures:
        try:
            enss.append((c.label, gg.tr(c.expr)[0], c.text))
        except Untranslatable as ex:
            skipped.append('%s: %s' % (c.label, ex))
    # struct type for cases
    fields = ''.join('\t%s %s\n' % ('f_' + n, gg.gotype(tk)) for (n, tk, vs, isptr) in varlists)
    cases = ''.join('\t\t{%s},\n' % ', '.join(c) for c in combos)
    loads = ''
    for (n, tk, vs, isptr) in varlists:
        k = types.kind(tk)
        if k == 'slice':
            loads += '\t\t\tv_%s := append(%s(nil), c.f_%s...)\n\t\t\tif c.f_%s == nil { v_%s = nil }\n' % (n, gg.gotype(tk), n, n, n)
            loads += '\t\t\told_%s := append(%s(nil), c.f_%s...)\n' % (n, gg.gotype(tk), n)
        else:
            loads += '\t\t\tv_%s := c.f_%s\n\t\t\told_%s := c.f_%s\n' % (n, n, n, n)
        loads += '\t\t\t_, _ = v_%s, old_%s\n' % (n, n)
    args = []
    for (n, tk, vs, isptr) in varlists:
        args.append('&v_' + n if isptr else 'v_' + n)
    fname = rel
    if is_method:
        m = re.match(r'^\(?\*?([\w.]+)\)?\.(\w+)$', rel)
        recv = args[0]
        call = '(%s).%s(%s)' % (recv, m.group(2), ', '.join(args[1:]))
    else:
        call = '%s(%s)' % (rel, ', '.join(args))
    rdecl = ''.join('\t\t\tvar r%d %s\n' % (i, gg.gotype(r['type'])) for i, r in enumerate(results))
    assign = (', '.join(rnames) + ' = ') if rnames else ''
    descr = ' + '.join(['fmt.Sprintf("%s=%%#v ", c.f_%s)' % (n, n) for (n, tk, vs, isptr) in varlists]) or '""'
    reqcode = ' && '.join('(%s)' % r for r in reqs) or 'true'
    checks = ''
    for (label, code, text) in enss:
        checks += '\t\t\tif ok, p := vGuard(func() bool { return %s }); p != nil || !ok {\n' % code
        checks += '\t\t\t\tt.Errorf("FAILING-INPUT ensures[%s] violated (%%v) on %%s", p, descr)\n\t\t\t\tfailed++\n\t\t\t\treturn\n\t\t\t}\n' % label
    may_panic = con.may_panic or bool(con.panics_if)
    panic_check = ''
    if not may_panic:
        panic_check = '\t\t\tif panicked != nil {\n\t\t\t\tt.Errorf("FAILING-INPUT panic %v on %s", panicked, descr)\n\t\t\t\tfailed++\n\t\t\t\treturn\n\t\t\t}\n'
    else:
        panic_check = '\t\t\tif panicked != nil {\n\t\t\t\treturn\n\t\t\t}\n'
    imports = {'math/big', 'reflect', 'fmt', 'testing'} | gg.used_imports
    specs = '\n'.join(v[0] for v in gg.specs.values() if v)
    aliased = dict(gg.alias_imports)
    aliased.update(con.seed_imports)
    imps = ''.join('\t"%s"\n' % i for i in sorted(imports) if i != pkg and i not in aliased.values())
    imps += ''.join('\t%s "%s"\n' % (a, p2) for a, p2 in sorted(aliased.items()) if p2 != pkg)
    src = 'package %s\n\nimport (\n%s)\n%s\n%s\n%s\n' % (pkgname, imps, PRELUDE, specs, '\n'.join(con.seed_helpers))
    src += '''
func vGuard(f func() bool) (ok bool, p any) {
	defer func() { p = recover() }()
	return f(), nil
}

type vCaseZZ struct {
%s}

// generated by vcgen: executable contract of %s, candidate input from the solver first.
// contract clauses not executable (skipped): %s
func TestVerifReplayZZ(t *testing.T) {
	cases := []vCaseZZ{
%s	}
	failed := 0
	for _, c := range cases {
		if failed >= 3 {
			break
		}
		func() {
%s
			descr := %s
			if ok, p := vGuard(func() bool { return %s }); p != nil || !ok {
				return
			}
%s
			var panicked any
			func() {
				defer func() { panicked = recover() }()
				%s%s
			}()
%s
%s
		}()
	}
}
''' % (fields, fnkey, '; '.join(skipped) or 'none', cases, loads, descr, reqcode, rdecl, assign, call, panic_check, checks)
    return src, pkgdir
