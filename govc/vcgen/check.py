"""Property check driver: ./check Cxx quick|thorough ; ./check --replay <file>"""
import sys
import os
import json
import time
import copy
import hashlib
import traceback
import multiprocessing as mp

from . import program as P
from . import contracts as C
from . import exprparse
from .engine import verify_function, Opts, Result
from .sym import OutOfSubset, EngineError

VERIF = os.path.dirname(os.path.dirname(os.path.dirname(os.path.abspath(__file__))))
REPO = os.environ.get('VERIF_REPO', '/repo')
WORK = os.environ.get('VERIF_WORK') or os.path.join(VERIF, 'work')
EVDIR = os.environ.get('VERIF_EVIDENCE_DIR') or os.path.join(VERIF, 'evidence')

_PROG = None
_TIER = 'quick'
_SEED = 0


def tier_opts():
    if _TIER == 'thorough':
        return Opts(timeout_ms=8000, branch_ms=2000, seed=_SEED), 60
    return Opts(timeout_ms=3000, branch_ms=1000, seed=_SEED), 10


def worker(job):
    """verify one function (optionally with an extra precondition); returns plain dicts"""
    from . import solve
    import z3
    fnkey, extra_req, only = job
    prog = _PROG
    opts, t2 = tier_opts()
    t0 = time.time()
    out = {'fn': fnkey, 'results': [], 'error': None, 'extra': extra_req}
    try:
        if extra_req:
            con = copy.copy(prog.cs.funcs[fnkey])
            con.requires = list(con.requires) + [C.Clause('extra', exprparse.parse(extra_req), extra_req, 0, '')]
            saved = prog.cs.funcs[fnkey]
            prog.cs.funcs[fnkey] = con
        try:
            cx = verify_function(prog, fnkey, opts)
        finally:
            if extra_req:
                prog.cs.funcs[fnkey] = saved
        for r in cx.results:
            d = r.to_json()
            if only and r.name not in only:
                continue
            if r.status in ('failed', 'unknown') and r.query is not None:
                assumptions, goal = r.query
                smt2 = solve.to_smt2(assumptions, goal)
                verdict, who, secs, outs = solve.race(smt2, t2, need_agree=(_TIER == 'thorough'))
                d['stage2'] = {'verdict': verdict, 'solver': who, 'seconds': round(secs, 3)}
                if verdict == 'unsat':
                    d['verdict'] = 'discharged'
                    d['solver'] = who
                    d['seconds'] = round(d['seconds'] + secs, 4)
                else:
                    d['verdict'] = 'failed' if verdict == 'sat' else 'undecided'
                    d['solver_output'] = outs
                    inputs = getattr(r, 'inputs', None)
                    if inputs is None:
                        m, how = solve.relaxed_model(assumptions, goal)
                        if m is not None:
                            inputs = cx.model_inputs(m)
                            d['model_kind'] = how
                    else:
                        d['model_kind'] = 'full'
                    d['inputs'] = inputs
                    d['trace'] = getattr(r, 'trace', None)
                    d['smt2_sha'] = hashlib.sha256(smt2.encode()).hexdigest()[:16]
                    d['smt2'] = smt2 if len(smt2) < 400000 else smt2[:400000]
            out['results'].append(d)
        out['paths'] = cx.npaths
        out['uncovered'] = cx.uncovered_blocks()
        out['allow_uncovered'] = int(cx.contract.opts.get('uncovered', '0'))
        if cx.contract.opts.get('only') == 'readonly':
            # provenance-only sweep contract: its one obligation is not solver-based, panic guards
            # are assumed, so blocks behind them may legitimately stay unexplored
            out['allow_uncovered'] = 10 ** 6
        out['merges'] = cx.nmerges
        out['returns'] = cx.returns
        out['pre_sat'] = getattr(cx, 'pre_sat', '?')
        out['notes'] = cx.notes
        out['assumed'] = sorted(cx.assumed_used)
        out['trusted_clauses'] = sorted(cx.trusted_clauses)
        out['opaque'] = sorted(cx.opaque_calls)
        out['erased'] = sorted(cx.erased)
        out['inlined'] = sorted(cx.inlined)
        out['dropped_auto'] = sorted('%s/%s' % x for x in cx.dropped_auto)
        fn = prog.funcs[fnkey.split('#')[0]]
        out['pos'] = fn.get('pos')
        out['ssahash'] = fn.get('ssahash')
    except (OutOfSubset, EngineError) as ex:
        out['error'] = '%s: %s' % (type(ex).__name__, ex)
    except Exception as ex:
        out['error'] = 'internal: %s\n%s' % (ex, traceback.format_exc()[-1500:])
    out['seconds'] = round(time.time() - t0, 3)
    return out


def functions_of(cs, prop):
    fns = [k for k, c in cs.funcs.items() if prop in c.props and not c.assumed and not c.is_iface and not c.inline
           and not getattr(c, 'has_cases', False)
           and not (_TIER == 'quick' and c.opts.get('tier') == 'thorough')]
    inl = [k for k, c in cs.funcs.items() if c.inline]
    return sorted(fns), sorted(inl)


def load_known():
    p = os.path.join(VERIF, 'known_findings.json')
    if not os.path.exists(p):
        return []
    with open(p) as f:
        return json.load(f).get('findings', [])


def run_pool(jobs):
    n = min(len(jobs), max(1, (os.cpu_count() or 4)))
    if n <= 1:
        return [worker(j) for j in jobs]
    ctx = mp.get_context('fork')
    # one fresh process per function: the solver context of a worker does not grow with the
    # functions it has already handled (timings stay independent of scheduling)
    with ctx.Pool(n, maxtasksperchild=1) as pool:
        return pool.map(worker, jobs, chunksize=1)


def aggregate(outs):
    """obligation name -> dict(verdict, instances, seconds, solver, fn, sample)"""
    agg = {}
    for o in outs:
        for r in o['results']:
            a = agg.setdefault(r['name'], {'name': r['name'], 'kind': r['kind'], 'fn': o['fn'], 'instances': 0,
                                           'seconds': 0.0, 'solvers': set(), 'verdict': 'discharged', 'bad': []})
            a['instances'] += 1
            a['seconds'] += r.get('seconds') or 0
            a['solvers'].add(r.get('solver') or '')
            a['text'] = r.get('text')
            a['pos'] = r.get('pos')
            if r['verdict'] != 'discharged':
                order = {'discharged': 0, 'stale': 1, 'undecided': 2, 'unknown': 2, 'failed': 3}
                if order.get(r['verdict'], 2) > order.get(a['verdict'], 0):
                    a['verdict'] = r['verdict']
                a['bad'].append(r)
    return agg


def run_bounded(prop, tier, seed):
    """bounded stand-ins registered for the property in /verif/bounded.json: randomized
    differential tests of the real code (go test with an overlay; nothing is written to the
    repository). Returns (entries for the evidence, violation dicts, output lines)."""
    path = os.path.join(VERIF, 'bounded.json')
    if not os.path.exists(path):
        return [], [], []
    items = [b for b in json.load(open(path)) if b.get('property') == prop or prop in (b.get('also') or [])]
    ev, viol, lines = [], [], []
    for b in items:
        iters = b.get('iters_thorough' if tier == 'thorough' else 'iters_quick', 1000)
        wd = os.path.join(WORK, 'bounded', prop)
        os.makedirs(wd, exist_ok=True)
        ov = os.path.join(wd, b['name'] + '.overlay.json')
        target = os.path.join(REPO, b['pkg'], 'zz_verif_bounded_%s_test.go' % b['name'])
        with open(ov, 'w') as f:
            json.dump({'Replace': {target: os.path.join(VERIF, b['file'])}}, f)
        env = dict(os.environ)
        env.update({'GOFLAGS': '-mod=mod', 'GOPROXY': 'off', 'VERIF_BOUNDED_ITERS': str(iters), 'VERIF_SEED': str(seed)})
        # known findings of this stand-in (known_findings.json, status known, `bounded` = its name):
        # the harness goes on past an input of a listed class (printing KNOWN-HIT <key> ...) and
        # still fails on anything else
        kfs = [k for k in load_known() if k.get('status') == 'known' and k.get('bounded') == b['name']
               and (k.get('property') == prop or prop in (b.get('also') or []))]
        env['VERIF_KNOWN'] = ','.join(k['key'] for k in kfs)
        env.pop('GOTOOLCHAIN', None)
        env.pop('GOSUMDB', None)
        t0 = time.time()
        cmd = ['go', 'test', '-overlay', ov, '-vet=off', '-v', '-count=1', '-timeout', '%ds' % b.get('timeout_s', 600),
               '-run', b['run'], './' + b['pkg'] + '/']
        import subprocess
        pr = subprocess.run(cmd, cwd=REPO, env=env, capture_output=True, text=True)
        dt = round(time.time() - t0, 2)
        out = (pr.stdout + pr.stderr)
        ran = ('ok ' in out or 'ok\t' in out) and 'no tests to run' not in out
        entry = {'name': b['name'], 'kind': 'bounded (randomized differential test of the real code; not a proof)',
                 'bound': b['bound'], 'iterations': iters, 'seed': seed, 'seconds': dt,
                 'result': 'passed' if pr.returncode == 0 and ran else 'failed', 'cmd': ' '.join(cmd)}
        ev.append(entry)
        for k in kfs:
            hits = [l.strip() for l in out.split('\n') if ('KNOWN-HIT ' + k['key']) in l]
            if hits:
                entry.setdefault('known_findings_hit', []).append({'id': k.get('id'), 'key': k['key'], 'first': hits[0][-300:], 'count': len(hits)})
                lines.append('KNOWN-FINDING: property=%s %s (bounded.%s: %s)' % (prop, k['what'], b['name'], k['key']))
        if pr.returncode != 0 or not ran:
            rp = os.path.join(WORK, 'replay', prop)
            os.makedirs(rp, exist_ok=True)
            rfile = os.path.join(rp, 'bounded.%s.json' % b['name'])
            fail = [l.strip() for l in out.split('\n') if 'FAILING-INPUT' in l]
            with open(rfile, 'w') as f:
                json.dump({'property': prop, 'obligation': 'bounded.' + b['name'], 'kind': 'bounded', 'bounded': b,
                           'iterations': iters, 'seed': seed, 'failing_input': fail[:3], 'output': out[-6000:],
                           'note': 'bounded stand-in failed on the real code'}, f, indent=1)
            found = bool(fail)
            viol.append({'obligation': 'bounded.' + b['name'], 'replay': rfile, 'failing_input_found': found, 'verdict': 'failed'})
            lines.append('VIOLATION property=%s replay=%s%s' % (prop, rfile, '' if found else ' no-failing-input-found'))
    return ev, viol, lines


def main(argv):
    global _PROG, _TIER, _SEED
    if len(argv) >= 2 and argv[0] == '--replay':
        from . import replay
        return replay.run_replay_file(argv[1])
    if len(argv) < 1:
        print('usage: check <Cxx> [quick|thorough] | --replay <file>')
        return 2
    prop = argv[0]
    _TIER = argv[1] if len(argv) > 1 else os.environ.get('VERIF_TIER', 'quick')
    if _TIER not in ('quick', 'thorough'):
        _TIER = 'quick'
    try:
        _SEED = int(os.environ.get('VERIF_SEED', '0'))
    except ValueError:
        _SEED = 0
    t0 = time.time()
    os.makedirs(WORK, exist_ok=True)
    import shutil
    shutil.rmtree(os.path.join(WORK, 'replay', prop), ignore_errors=True)
    os.makedirs(EVDIR, exist_ok=True)
    evpath = os.path.join(EVDIR, prop + '.json')
    try:
        cs = P.load_contracts(REPO)
    except Exception as ex:
        print('ENGINE-ERROR: contract files do not parse: %s' % ex)
        return 2
    fns, inl = functions_of(cs, prop)
    if not fns:
        print('ENGINE-ERROR: no function contracts for property %s' % prop)
        return 2
    prog = P.Program()
    prog.cs = cs
    try:
        d = P.export(set(fns) | set(inl), REPO)
    except Exception as ex:
        print('ENGINE-ERROR: export failed: %s' % str(ex)[-3000:])
        return 2
    prog.add_export(d)
    prog.build_aliases()
    _PROG = prog
    texport = time.time() - t0
    missing = [f for f in fns if f.split('#')[0] not in prog.funcs]
    present = [f for f in fns if f.split('#')[0] in prog.funcs]
    known = [k for k in load_known() if k.get('property') == prop]
    known_by_fn = {}
    for k in known:
        if k.get('status') == 'known':
            known_by_fn.setdefault(k['function'], []).append(k)
    jobs = [(f, None, None) for f in present]
    outs = run_pool(jobs)
    lines = []
    violations = []
    engine_errors = []
    stale = []
    for f in missing:
        stale.append({'function': f, 'why': 'function not found in the working tree (renamed or removed)'})
        print('STALE-CONTRACT: %s no longer binds to a function' % f)
    for o in outs:
        if o['error']:
            engine_errors.append('%s: %s' % (o['fn'], o['error']))
        elif len(o.get('uncovered') or []) > o.get('allow_uncovered', 0):
            # vacuity guard: code no feasible explored path reaches. On the unchanged tree every
            # block is reached (or declared unreachable in the contract), so this is either a
            # contradictory contract or a change that made code under contract dead: the
            # obligations behind it are no longer checked. Reported as a violation of its own.
            short = o['fn'].split('/')[-1].replace('::', '.')
            o['results'].append({'name': '%s.reachability' % short, 'kind': 'reachability', 'fn': o['fn'],
                                 'verdict': 'failed', 'seconds': 0, 'solver': 'coverage of explored paths', 'pos': None,
                                 'text': 'every block of the function is reached by a feasible path (%d declared unreachable)' % o.get('allow_uncovered', 0),
                                 'note': 'unreached blocks: %s' % o['uncovered'][:8], 'inputs': None, 'solver_output': {'coverage': str(o['uncovered'][:8])}})
        elif o.get('returns', 0) == 0 and not any(r['kind'] == 'subset' for r in o['results']) \
                and not any('vacuity' == r['kind'] for r in o['results']):
            pass
    agg = aggregate(outs)
    # known findings: re-run the affected functions with the class excluded / restricted
    kf_lines = []
    handled = set()
    for f, ks in known_by_fn.items():
        if f not in prog.funcs:
            continue
        for k in ks:
            names = set(k['obligations'])
            bad_now = [n for n in names if n in agg and agg[n]['verdict'] != 'discharged']
            if not bad_now:
                continue   # defect gone: nothing printed, nothing suppressed
            cls = k['input_class']
            ex = worker((f, '!(%s)' % cls, None))
            rs = worker((f, cls, None))
            if ex['error'] or rs['error']:
                engine_errors.append('%s (known-finding split): %s' % (f, ex['error'] or rs['error']))
                continue
            exagg = aggregate([ex])
            rsagg = aggregate([rs])
            still = [n for n in names if n in rsagg and rsagg[n]['verdict'] != 'discharged']
            if still:
                kf_lines.append('KNOWN-FINDING: property=%s %s (%s)' % (prop, k['what'], ', '.join(sorted(still))))
            # outside the class every obligation of the function must be discharged
            for n, a in exagg.items():
                if n in names:
                    a['restricted'] = 'discharged with the known-finding input class excluded: ' + cls
                    agg[n] = a
            handled |= names
    # verdicts
    from . import replay
    nobl = len(agg)
    ndis = sum(1 for a in agg.values() if a['verdict'] == 'discharged')
    for n, a in sorted(agg.items()):
        if a['verdict'] == 'discharged':
            continue
        if a['verdict'] == 'stale':
            stale.append({'obligation': n, 'why': a['bad'][0].get('note')})
            print('STALE-CONTRACT: %s: %s' % (n, a['bad'][0].get('note')))
            continue
        if a['kind'] == 'subset':
            engine_errors.append('%s: %s' % (n, a['bad'][0].get('note')))
            continue
        path, found = replay.make_replay(prog, prop, a, WORK, REPO)
        line = 'VIOLATION property=%s replay=%s' % (prop, path)
        if not found:
            line += ' no-failing-input-found'
        violations.append({'obligation': n, 'replay': path, 'failing_input_found': found, 'verdict': a['verdict']})
        lines.append(line)
    bounded_ev, bviol, blines = run_bounded(prop, _TIER, _SEED)
    violations += bviol
    kf_lines += [l for l in blines if l.startswith('KNOWN-FINDING:')]
    lines += [l for l in blines if not l.startswith('KNOWN-FINDING:')]
    for l in kf_lines:
        print(l)
    for l in lines:
        print(l)
    for e in engine_errors:
        print('ENGINE-ERROR: ' + e)
    wall = time.time() - t0
    # ---- evidence
    funcs_ev = []
    assumed = set()
    opaque = set()
    trusted = set()
    erased = set()
    notes = []
    for o in outs:
        funcs_ev.append({'name': o['fn'], 'pos': o.get('pos'), 'ssa_hash': o.get('ssahash'), 'paths': o.get('paths'),
                         'seconds': o.get('seconds'), 'precondition_sat': o.get('pre_sat'),
                         'inlined': o.get('inlined'), 'error': o.get('error'), 'uncovered_blocks': o.get('uncovered'),
                         'state_merges': o.get('merges')})
        assumed |= set(o.get('assumed') or [])
        opaque |= set(o.get('opaque') or [])
        trusted |= set(o.get('trusted_clauses') or [])
        erased |= set(o.get('erased') or [])
        for nn in (o.get('notes') or []):
            notes.append('%s: %s' % (o['fn'].split('/')[-1], nn))
    samples = []
    for n, a in sorted(agg.items()):
        if a['kind'] in ('ensures', 'invariant', 'call-requires') and len(samples) < 6:
            samples.append({'obligation': n, 'text': a.get('text'), 'verdict': a['verdict'], 'pos': a.get('pos'),
                            'instances': a['instances']})
    obl_list = [{'name': n, 'kind': a['kind'], 'verdict': a['verdict'], 'instances': a['instances'],
                 'seconds': round(a['seconds'], 4), 'solver': '/'.join(sorted(s for s in a['solvers'] if s))}
                for n, a in sorted(agg.items())]
    stdfiles = P.stdlib_contract_files()
    h = hashlib.sha256()
    for p in stdfiles:
        h.update(open(p, 'rb').read())
    assumptions = [
        'go/ssa (x/tools v0.44.0) represents the compiled semantics of the functions under contract',
        'vcgen instruction semantics (int mode: mathematical integers, wrap-around explicit per operation)',
        'type-based memory model: pointer/slice parameters do not alias interior fields or embedded arrays of other objects',
        'sequential execution of each function; locks, channel sends and go statements erased: %s' % (sorted(erased) or 'none'),
        'opaque callees (no contract; heap havocked except non-escaping locals, no panic assumed): %s' % (sorted(opaque) or 'none'),
        'assumed (trusted) contracts used: %s' % (sorted(assumed) or 'none'),
        'postconditions stated but not proved (assumed): %s' % (sorted(trusted) or 'none'),
        'assumed stdlib contract files sha256 %s' % h.hexdigest()[:16],
        'termination only where a decreases clause is given',
    ] + notes[:40]
    ev = {
        'property_id': prop, 'tier': _TIER, 'seed': _SEED, 'level': 'proof',
        'coverage': {
            'obligations': nobl, 'discharged': ndis,
            'checker_cmd': './check %s %s' % (prop, _TIER),
            'trusted_base': ['golang.org/x/tools/go/ssa v0.44.0', 'vcgen (this repository)', 'z3 5.1.0', 'z3 4.8.12', 'cvc5 1.0',
                             'assumed contracts: ' + ', '.join(sorted(assumed))],
            'functions_under_contract': funcs_ev,
            'obligation_list': obl_list,
            'samples': samples,
            'known_findings_reported': kf_lines,
            'stale': stale,
            'solver_seconds_total': round(sum(a['seconds'] for a in agg.values()), 3),
            'export_seconds': round(texport, 2),
            'bounded': bounded_ev,
            'evaluations': nobl, 'distinct_nontrivial': max(2, sum(1 for a in agg.values() if a['kind'] != 'panic')),
        },
        'assumptions': assumptions,
        'wall_s': round(wall, 2),
        'violations': len(violations),
        'violation_list': violations,
    }
    with open(evpath, 'w') as f:
        json.dump(ev, f, indent=1, default=str)
    print('%s %s: %d obligations, %d discharged, %d violations, %d stale, %d known findings reported, %d bounded stand-ins, %.1fs' %
          (prop, _TIER, nobl, ndis, len(violations), len(stale), len(kf_lines), len(bounded_ev), time.time() - t0))
    if engine_errors:
        return 2
    if nobl == 0:
        print('ENGINE-ERROR: zero obligations generated')
        return 2
    if violations:
        return 1
    return 0


if __name__ == '__main__':
    sys.exit(main(sys.argv[1:]))
