"""Uninterpreted and recursive spec functions."""
import z3
import os
from .sym import I, B, Val, scalar, sort_of, fresh_name, pathstr, OutOfSubset, EngineError, MATHINT
from . import ops
from .state import State, Heap
from .speceval import Ev, SpecError


_rec_ctr = [0]


class FormalHeap(Heap):
    """heap whose regions are the formal array parameters of a recursive spec function"""

    def __init__(self, types, tag):
        super().__init__(types)
        self.tag = tag
        self.keys = []

    def get(self, key, sortdesc, alloc0):
        if key not in self.r:
            self.sorts.setdefault(key, sortdesc)
            self.r[key] = self.const(self.tag, key)
            self.keys.append(key)
            self.layers[key] = []
        return self.r[key]

    def copy(self):
        return self


class RecSpecs:
    def __init__(self, cx):
        self.cx = cx
        self.defs = {}

    def flat(self, v):
        """argument terms of an uninterpreted application; small fixed arrays are expanded to
        their elements so that equal Go values give equal arguments (SMT arrays are extensional
        over all indices, Go arrays only over 0..N-1)"""
        types = self.cx.types
        if v.t == MATHINT:
            return [v.term]
        return self.canon(v)

    def canon(self, v):
        from . import values as V
        types = self.cx.types
        k = types.kind(v.t)
        if k == 'struct':
            out = []
            for f in types.fields(v.t):
                out += self.canon(v.sub(('.' + f['name'],), f['type']))
            return out
        if k == 'array' and types.desc(v.t)['len'] <= 64:
            out = []
            for i in range(types.desc(v.t)['len']):
                out += self.canon(V.index_array_val(types, v, z3.IntVal(i)))
            return out
        return [v.lv[p] for (p, s, role) in types.leaves(v.t)]

    def leaves_of(self, tk):
        types = self.cx.types
        if tk == MATHINT:
            return [((), 'I', None)]
        return types.leaves(tk)

    def apply(self, ev, sf, env):
        types = self.cx.types
        rt = ev.rtype_key(sf)
        args = []
        for (pn, pt) in sf.params:
            a = env[pn]
            if sf.body is None and a.t != MATHINT and types.kind(a.t) == 'string':
                # an uninterpreted function sees a byte sequence through its abstract value
                from . import values as V
                args.append(V.strkey(a, None if ev.quant else ev.st))
                if ev.quant:
                    ev.st.assume(V.strkey_axiom())
            else:
                args += self.flat(a)
        if sf.body is None:
            lv = {}
            for (p, s, role) in self.leaves_of(rt):
                f = ops.uf('spec_%s_%s%s' % (sf.pkg.rsplit('/', 1)[-1], sf.name, pathstr(p)),
                           *([a.sort() for a in args] + [sort_of(s)]))
                lv[p] = f(*args)
            v = Val(rt, lv)
            return v
        d = self.define(ev, sf, env, rt, [a.sort() for a in args])
        if len(d) == 4:   # inside the function's own definition
            return Val(rt, {(): d[0](*args)})
        f, keys, sorts = d
        hargs = []
        fp, fformals, fregions = getattr(self, 'footprints', {}).get((sf.pkg, sf.name), ({}, [], []))
        actual = [ev.st.heap.get(key, sorts[key], ev.st.alloc0) for key in keys]
        subs = None
        for n, key in enumerate(keys):
            h = actual[n]
            if key in fp and len(fformals) == len(args):
                if subs is None:
                    subs = list(zip(fformals, args)) + list(zip(fregions, actual))
                if not fp[key]:
                    h = fregions[n]      # any one term: the value does not depend on this region
                else:
                    try:
                        h = self.peel(h, [z3.substitute(b, *subs) for b in fp[key]])
                    except z3.Z3Exception:
                        pass
            hargs.append(h)
        term = self.apply_lifted(f, args, hargs)
        if not ev.quant and not getattr(ev, 'nounfold', False):
            sub = Ev(self.cx, ev.st, dict(env), sf.pkg, ev.old, sf.imports, None, False)
            sub.nounfold = True
            body = sub.ev(sf.body)
            ev.st.assume(term == body.term)
        return Val(rt, {(): term})

    def apply_lifted(self, f, args, hargs, depth=0):
        """f(args, heaps) with a conditional heap (the state after a join) taken out of the
        application: f(.., If(c, A, B)) = If(c, f(.., A), f(.., B)); quantifier patterns over f then
        match the facts known about A and about B"""
        if depth < 4:
            for n, h in enumerate(hargs):
                if z3.is_app(h) and h.decl().kind() == z3.Z3_OP_ITE:
                    a = list(hargs)
                    b = list(hargs)
                    a[n] = h.arg(1)
                    b[n] = h.arg(2)
                    return z3.If(h.arg(0), self.apply_lifted(f, args, a, depth + 1), self.apply_lifted(f, args, b, depth + 1))
        return f(*(args + hargs))

    def different(self, a, b):
        """do the assumptions of the current path exclude a == b? (the order solver first, then
        the quantifier-free mirror of the path with a short time limit)"""
        sv = self.cx.solver
        if sv.provably_different(a, b):
            return True
        key = (a.get_id(), b.get_id(), len(sv.qf.assertions()))
        memo = self.__dict__.setdefault('_diff_memo', {})
        if key in memo:
            return memo[key]
        q = sv.qf
        q.push()
        try:
            q.add(a == b)
            q.set('timeout', int(os.environ.get('VCGEN_DIFF_MS', '100')))
            rr = q.check()
            r = rr == z3.unsat
            if os.environ.get('VCGEN_TRACE_PATHS') and not r:
                import sys
                print('DIFF-CHECK', rr, [x.sexpr()[:150] for x in q.assertions() if 'ref_append' in x.sexpr() or 'Attributesb' in x.sexpr()][:12], file=sys.stderr)
        finally:
            q.pop()
            q.set('timeout', sv._branch_ms)
        memo[key] = r
        import sys
        if not r and os.environ.get('VCGEN_TRACE_PATHS'):
            print('NOT-DIFFERENT', a.sexpr()[:200], '|', b.sexpr()[:200], file=sys.stderr)
        return r

    def peel(self, h, bases, depth=0):
        """the region term without the writes to rows other than those of `bases` (the function
        applied reads only these rows, so its value is the same on both)"""
        if depth > 60:
            return h
        if z3.is_store(h):
            i = h.arg(1)
            if all(self.different(i, b) for b in bases):
                return self.peel(h.arg(0), bases, depth + 1)
            return h
        if z3.is_app(h) and h.decl().kind() == z3.Z3_OP_ITE:
            x = self.peel(h.arg(1), bases, depth + 1)
            y = self.peel(h.arg(2), bases, depth + 1)
            if x.eq(y):
                return x
            if x.eq(h.arg(1)) and y.eq(h.arg(2)):
                return h
            return z3.If(h.arg(0), x, y)
        return h

    def define(self, ev, sf, env, rt, argsorts):
        """heap footprint and uninterpreted symbol of a recursive spec function (fuel-1 scheme:
        the function is uninterpreted; each application outside a quantifier gets one instance of
        its defining equation)"""
        k = (sf.pkg, sf.name)
        if k in self.defs:
            return self.defs[k]
        types = self.cx.types
        rl = self.leaves_of(rt)
        if len(rl) != 1:
            raise SpecError('recursive spec %s must return a scalar' % sf.name)
        rsort = sort_of(rl[0][1])
        fenv = {}
        formals = []
        for (pn, pt) in sf.params:
            a = env[pn]
            if a.t == MATHINT:
                c = z3.Int('%s_%s' % (sf.name, pn))
                fenv[pn] = scalar(MATHINT, c)
                formals.append(c)
            else:
                lv = {}
                for (p, s, role) in types.leaves(a.t):
                    c = z3.Const('%s_%s%s' % (sf.name, pn, pathstr(p)), sort_of(s))
                    lv[p] = c
                    formals.append(c)
                fenv[pn] = Val(a.t, lv)
        cx = self.cx
        heap1 = FormalHeap(types, 'R_' + sf.name)
        hs = State.__new__(State)
        hs.__dict__.update(ev.st.__dict__)
        hs.heap = heap1
        hs.assumptions = []
        hs.sink = None
        hs.subcache = {}
        sub = Ev(cx, hs, dict(fenv), sf.pkg, None, sf.imports, None, True)
        rec_calls = []

        def placeholder(*a):
            rec_calls.append(list(a))
            return z3.FreshConst(rsort, 'ph')
        self.defs[k] = (placeholder, heap1.keys, heap1.sorts, True)
        try:
            bodyv = sub.ev(sf.body)
        finally:
            del self.defs[k]
        keys = list(heap1.keys)
        sorts = dict(heap1.sorts)
        # footprint: a region that the body reads only through rows select(R, base), where the base
        # terms do not depend on R and depend on parameters that every recursive call passes on
        # unchanged, lets an application ignore writes to rows of other bases
        self.footprints = getattr(self, 'footprints', {})
        fp = {}
        try:
            bt = bodyv.term if isinstance(bodyv, Val) else None
        except Exception:
            bt = None
        if bt is not None:
            fidx = {c.get_id(): n for n, c in enumerate(formals)}

            def mentions(t, ids, memo):
                """does term t contain a constant whose id is in ids (or a bound variable)?"""
                stack = [t]
                seen = set()
                while stack:
                    x = stack.pop()
                    if x.get_id() in seen:
                        continue
                    seen.add(x.get_id())
                    if z3.is_var(x) or z3.is_quantifier(x):
                        return True
                    if x.get_id() in ids:
                        return True
                    if z3.is_app(x):
                        stack.extend(x.children())
                return False

            def formals_in(t):
                out = set()
                stack = [t]
                seen = set()
                while stack:
                    x = stack.pop()
                    if x.get_id() in seen:
                        continue
                    seen.add(x.get_id())
                    if x.get_id() in fidx:
                        out.add(fidx[x.get_id()])
                    if z3.is_app(x):
                        stack.extend(x.children())
                return out
            for key in keys:
                R = heap1.r[key]
                rid = {R.get_id()}
                ok = True
                bases = []
                seen = set()
                stack = [bt] + list(hs.assumptions)
                for call in rec_calls:
                    stack.extend(call)
                while stack and ok:
                    t = stack.pop()
                    if t.get_id() in seen:
                        continue
                    seen.add(t.get_id())
                    if z3.is_quantifier(t):
                        stack.append(t.body())
                        continue
                    if not z3.is_app(t):
                        continue
                    if t.eq(R):
                        ok = False
                        break
                    if z3.is_select(t) and t.arg(0).eq(R):
                        b = t.arg(1)
                        if mentions(b, rid, None):
                            ok = False
                            break
                        for n in formals_in(b):
                            for call in rec_calls:
                                if n >= len(call) or not call[n].eq(formals[n]):
                                    ok = False
                        if all(not b.eq(x) for x in bases):
                            bases.append(b)
                        stack.append(b)
                        continue
                    stack.extend(t.children())
                if ok:
                    fp[key] = bases     # no base at all: the region is not read (only named by a whole-struct load)
        self.footprints[k] = (fp, formals, [heap1.r[key] for key in keys])
        f = ops.uf('spec_%s_%s' % (sf.pkg.rsplit('/', 1)[-1], sf.name),
                   *(list(argsorts) + [z3.ArraySort(I, sort_of(sorts[key])) for key in keys] + [rsort]))
        d = (f, keys, sorts)
        self.defs[k] = d
        return d
