"""Integer and value operations (int mode: mathematical integers with explicit wrap-around)."""
import z3
from .sym import I, B, Val, scalar, OutOfSubset, EngineError, MATHINT, fresh_name


def is_const(t):
    t = z3.simplify(t)
    return z3.is_int_value(t)


def const_val(t):
    t = z3.simplify(t)
    if z3.is_int_value(t):
        return t.as_long()
    return None


def wrap(types, t, tk):
    rng = types.int_range(tk)
    if rng is None:
        return t
    lo, hi = rng
    c = const_val(t)
    n = hi - lo + 1
    if c is not None:
        return z3.IntVal(((c - lo) % n) + lo)
    return z3.If(z3.And(t >= lo, t <= hi), t, ((t - lo) % n) + lo)


def tdiv(x, y):
    """Go truncated division on mathematical ints (y != 0)"""
    cx, cy = const_val(x), const_val(y)
    if cy is not None and cy > 0:
        return z3.If(x >= 0, x / y, -((-x) / y))
    return z3.If(y > 0, z3.If(x >= 0, x / y, -((-x) / y)),
                 z3.If(x >= 0, -(x / (-y)), (-x) / (-y)))


def trem(x, y):
    return x - y * tdiv(x, y)


_ufs = {}


def uf(name, *sorts):
    k = (name,) + tuple(str(s) for s in sorts)
    if k not in _ufs:
        _ufs[k] = z3.Function(name, *sorts)
    return _ufs[k]


def bits_of(x, n):
    """list of n Int terms in {0,1}: bit i of non-negative x < 2^n"""
    return [(x / (1 << i)) % 2 for i in range(n)]


def bit_vars(st, x, n):
    """n fresh 0/1 integers constrained to be the binary digits of x (0 <= x < 2^n): linear
    arithmetic instead of div/mod chains"""
    cache = st.__dict__.setdefault('_bitvars', {})
    k = (x.get_id(), n)
    if k in cache:
        return cache[k]
    c = const_val(x)
    if c is not None:
        bs = [z3.IntVal((c >> i) & 1) for i in range(n)]
    else:
        bs = [z3.Int(fresh_name('bit%d' % i)) for i in range(n)]
        st.assume(z3.And([z3.And(b >= 0, b <= 1) for b in bs] + [x == z3.Sum([b * (1 << i) for i, b in enumerate(bs)])]))
        if n <= 8:
            # link to the arithmetic reading of a bit used in specifications
            st.assume(z3.And([(x / (1 << i)) % 2 == b for i, b in enumerate(bs)]))
    cache[k] = bs
    return bs


def to_unsigned(types, x, tk):
    rng = types.int_range(tk)
    if rng is None or rng[0] == 0:
        return x
    n = rng[1] - rng[0] + 1
    return z3.If(x >= 0, x, x + n)


def from_unsigned(types, x, tk):
    rng = types.int_range(tk)
    if rng is None or rng[0] == 0:
        return x
    n = rng[1] - rng[0] + 1
    return z3.If(x > rng[1], x - n, x)


def is_pow2_minus1(c):
    return c >= 0 and (c & (c + 1)) == 0


def bitop(types, op, x, y, tk, st=None):
    """x op y for op in & | ^ &^ on integers of type tk (int mode)"""
    rng = types.int_range(tk)
    bits = types.desc(tk)['bits'] if rng is not None else 256
    cx, cy = const_val(x), const_val(y)
    if cx is not None and cy is not None:
        ux = cx % (1 << bits)
        uy = cy % (1 << bits)
        r = {'&': ux & uy, '|': ux | uy, '^': ux ^ uy, '&^': ux & ~uy}[op] % (1 << bits)
        return from_unsigned(types, z3.IntVal(r), tk)
    ux, uy = to_unsigned(types, x, tk), to_unsigned(types, y, tk)
    if op == '&':
        for a, c in ((ux, cy), (uy, cx)):
            if c is not None and c >= 0:
                if c == 0:
                    return z3.IntVal(0)
                if is_pow2_minus1(c):
                    return from_unsigned(types, a % (c + 1), tk)
                # single contiguous run of ones: ((a / 2^lo) % 2^w) * 2^lo
                lo = (c & -c).bit_length() - 1
                if is_pow2_minus1(c >> lo):
                    w = (c >> lo).bit_length()
                    return from_unsigned(types, ((a / (1 << lo)) % (1 << w)) * (1 << lo), tk)
    if op == '&^':
        if cy is not None and cy >= 0:
            # clear bits of constant mask
            return bitop(types, '&', x, z3.IntVal(((1 << bits) - 1) & ~cy), tk, st)
    if bits <= 16:
        if st is not None:
            bx, by = bit_vars(st, ux, bits), bit_vars(st, uy, bits)
        else:
            bx, by = bits_of(ux, bits), bits_of(uy, bits)
        terms = []
        for i in range(bits):
            if op == '&':
                b = z3.If(z3.And(bx[i] == 1, by[i] == 1), 1 << i, 0)
            elif op == '|':
                b = z3.If(z3.Or(bx[i] == 1, by[i] == 1), 1 << i, 0)
            elif op == '^':
                b = z3.If(bx[i] != by[i], 1 << i, 0)
            else:
                b = z3.If(z3.And(bx[i] == 1, by[i] == 0), 1 << i, 0)
            terms.append(b)
        return from_unsigned(types, z3.Sum(terms), tk)
    # wide, non-constant: uninterpreted with sound bounds
    f = uf('bit%s_%d' % ({'&': 'and', '|': 'or', '^': 'xor', '&^': 'andnot'}[op], bits), I, I, I)
    r = f(ux, uy)
    if st is not None:
        if op == '&':
            st.assume(z3.And(r >= 0, r <= ux, r <= uy))
        elif op == '|':
            st.assume(z3.And(r >= ux, r >= uy, r <= ux + uy))
        elif op == '^':
            st.assume(z3.And(r >= 0, r <= ux + uy))
        else:
            st.assume(z3.And(r >= 0, r <= ux))
    return from_unsigned(types, r, tk)


def shift(types, op, x, y, tk, st=None):
    rng = types.int_range(tk)
    bits = types.desc(tk)['bits'] if rng is not None else 0
    cy = const_val(y)
    if cy is not None:
        if op == '<<':
            if bits and cy >= bits:
                return z3.IntVal(0)
            return wrap(types, x * (1 << cy), tk)
        else:
            if bits and cy >= bits:
                return z3.If(x >= 0, z3.IntVal(0), z3.IntVal(-1))
            return x / (1 << cy)   # floor division == arithmetic shift
    p2 = uf('pow2', I, I)
    if st is not None:
        st.assume(z3.And(p2(y) >= 1, z3.Implies(y == 0, p2(y) == 1), z3.Implies(y == 1, p2(y) == 2),
                         z3.Implies(y == 2, p2(y) == 4), z3.Implies(y == 3, p2(y) == 8),
                         z3.Implies(y == 4, p2(y) == 16), z3.Implies(y >= 5, p2(y) >= 32),
                         z3.Implies(y == 5, p2(y) == 32), z3.Implies(y == 6, p2(y) == 64),
                         z3.Implies(y == 7, p2(y) == 128), z3.Implies(y == 8, p2(y) == 256)))
    if op == '<<':
        r = wrap(types, x * p2(y), tk)
        if bits:
            r = z3.If(y >= bits, z3.IntVal(0), r)
        return r
    r = x / p2(y)
    if bits:
        r = z3.If(y >= bits, z3.If(x >= 0, z3.IntVal(0), z3.IntVal(-1)), r)
    return r


def bool_to_int(b):
    return z3.If(b, z3.IntVal(1), z3.IntVal(0))
