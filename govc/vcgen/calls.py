"""Calls: builtins, contracted (modular), inlined, opaque."""
import z3
from .sym import I, B, Val, Loc, scalar, sort_of, fresh_name, pathstr, OutOfSubset, EngineError, MATHINT
from . import ops
from . import values as V
from .values import mathint, boolv
from .state import State, Event
from .speceval import Ev, SpecError, NilV

MAX_INLINE_DEPTH = 6


def mentions_ncalls(e):
    if isinstance(e, (tuple, list)):
        if len(e) >= 2 and e[0] == 'call' and e[1] == ('id', 'ncalls'):
            return True
        return any(mentions_ncalls(x) for x in e)
    return False


class CallsMixin:

    # ------------------------------------------------------------ dispatch
    def do_call(self, st, fr, b, i, ins, inline_ok=True):
        from .instrs import ERASED_CALLS
        cx = self.cx
        call = ins['call']
        args = [self.operand(st, fr, a) for a in call['args']]
        if 'invoke' in call:
            recv = self.operand(st, fr, call['recv'])
            return self.call_invoke(st, fr, b, i, ins, recv, call['invoke'], call['iface'], args)
        fnv = call['fn']
        if fnv['k'] == 'builtin':
            return self.call_builtin(st, fr, b, i, ins, fnv['name'], args)
        if fnv['k'] == 'func':
            from .program import normfn
            callee = normfn(fnv['name'])
            binds = []
        else:
            fv = self.operand(st, fr, fnv)
            callee = fv.fn
            binds = fv.bindings or []
            if callee is None:
                self.panic_check(st, fr, ins, fv.term != 0, 'nilfunc')
                return self.call_funcvalue(st, fr, b, i, ins, fv, args)
        if callee in ERASED_CALLS:
            cx.erased.add(callee)
            self.set_result(st, ins, [])
            return None
        self.callsite_obligations(st, fr, ins, callee, args)
        if fr is cx.top and cx.contract.opts.get('stable-from') and cx.contract.opts['stable-from'] in callee:
            st.ghost['stable-on'] = z3.IntVal(1)
        if fr is cx.top:
            hit = [pat for pat in cx.call_patterns if pat in callee]
            if hit:
                # position of this call in the sequence of counted calls (for lastseq())
                sq = st.ghost.get('seqno', z3.IntVal(0)) + 1
                st.ghost['seqno'] = sq
            for pat in hit:
                k = 'calls:' + pat
                st.ghost[k] = st.ghost.get(k, z3.IntVal(0)) + 1
                st.ghost['seq:' + pat] = sq
        r = self.call_static(st, fr, b, i, ins, callee, binds, args, inline_ok)
        if r is None:
            self.callsite_assumptions(st, fr, ins, callee, args)
        return r

    def set_result(self, st, ins, vals):
        t = ins.get('type')
        if t is None or 'name' not in ins:
            return
        types = self.types
        if t == '()' or (types.get(t)['k'] == 'tuple' and not types.get(t)['elems']):
            st.regs[ins['name']] = Val(t, {})
            return
        if types.get(t)['k'] == 'tuple':
            from .instrs import tuple_lv
            st.regs[ins['name']] = Val(t, tuple_lv(vals))
        else:
            v = vals[0]
            st.regs[ins['name']] = Val(t, v.lv, loc=v.loc, arr=v.arr, fn=v.fn, bindings=v.bindings)

    def call_static(self, st, fr, b, i, ins, callee, binds, args, inline_ok):
        cx = self.cx
        if callee.startswith('slices::ContainsFunc[') or callee.startswith('slices::IndexFunc['):
            return self.ho_contains(st, fr, ins, callee, args)
        if callee.startswith('slices::Contains[') or callee.startswith('slices::Index['):
            return self.ho_contains_val(st, fr, ins, callee, args)
        if callee == 'sort::Search':
            return self.ho_sort_search(st, fr, ins, callee, args)
        con = self.prog.cs.funcs.get(callee)
        if con is None and '[' in callee:
            # one contract for every instance of a generic function: `func Name[*]`
            con = self.prog.cs.funcs.get(callee.split('[', 1)[0] + '[*]')
        if con is not None and getattr(con, 'has_cases', False):
            con = None   # behaviours need not be exhaustive: callers see an opaque function
        oc = cx.contract.opts.get('opaque-callees', '')
        if con is not None and oc and any(x and x in callee for x in oc.split(',')):
            cx.notes.append('contract of %s deliberately not used here (treated as opaque)' % callee)
            return self.call_opaque(st, fr, ins, callee, args)
        if con is not None and con.opts.get('callers') == 'trust':
            cx.assumed_used.add('frame of %s is not verified: callers assume it writes nothing they read (declared `callers trust`)' % callee)
        elif con is not None and not con.assumed and not con.inline and con.opts.get('frame') == 'off' and con.modifies is None \
                and not con.pure:
            # verified without a frame check and without a modifies clause: what it writes is not
            # known to callers, so they may not rely on "writes nothing"
            cx.notes.append('contract of %s states no frame (callers treat it as opaque)' % callee)
            return self.call_opaque(st, fr, ins, callee, args)
        if con is not None and con.opts.get('callers') == 'opaque':
            # the contract states what the body establishes but not a complete frame: callers do
            # not rely on it
            cx.notes.append('contract of %s is for its own body only (callers treat it as opaque)' % callee)
            return self.call_opaque(st, fr, ins, callee, args)
        if con is not None and not con.inline:
            sig = self.prog.sigs.get(callee) or {}
            params = [p['name'] for p in (sig.get('params') or [])]
            results = sig.get('results') or []
            fnd = self.prog.funcs.get(callee)
            rn = (fnd or {}).get('resultnames') or [r.get('name') or '' for r in results]
            extra = None
            if fnd is not None and fnd.get('freevars'):
                # a closure under contract: its captured variables are named in the contract and
                # denote their current values; the contract may not modify them
                fvs = fnd['freevars']
                if binds is None or len(binds) != len(fvs) or con.modifies:
                    raise OutOfSubset('contracted closure call')
                types = self.types
                extra = {}
                for fvd, bv in zip(fvs, binds):
                    if types.kind(bv.t) == 'ptr' and types.kind(fvd['type']) == 'ptr':
                        extra[fvd['name']] = (lambda bv=bv: st.load(st.ptr_loc(bv), facts=False))
                    else:
                        extra[fvd['name']] = bv
            vals = self.apply_contract(st, fr, ins, con, callee, params, args, [r['type'] for r in results], rn, extra_env=extra)
            self.set_result(st, ins, vals)
            if con.opts.get('result') == 'readonly' and ins.get('name'):
                src = callee.split('::')[-1]
                st.ro[(id(fr), ins['name'])] = src
                cx.ro_sources.add(src)
            return None
        fnd = self.prog.funcs.get(callee)
        want_inline = (con is not None and con.inline) or (fnd is not None and '$' in callee.split('::')[1] and binds is not None)
        if fnd is not None and want_inline and inline_ok and fr.depth < MAX_INLINE_DEPTH:
            return self.call_inline(st, fr, b, i, ins, callee, fnd, binds, args)
        return self.call_opaque(st, fr, ins, callee, args)

    # ------------------------------------------------------------ modular call
    def apply_contract(self, st, fr, ins, con, callee, params, args, rtypes, rnames, label=None, extra_env=None):
        cx = self.cx
        types = self.types
        short = callee.split('/')[-1].replace('::', '.')
        st.callcount += 1
        env = dict(extra_env or {})
        for n, a in zip(params, args):
            env[n] = a
        off = 1 if (params and params[0] == 'recv') else 0
        for k, a in enumerate(args):
            if k >= off:
                env.setdefault('arg%d' % (k - off), a)
        ev = Ev(cx, st, env, con.pkg, None, con.imports)
        if con.assumed:
            cx.assumed_used.add(callee)
        ordn = cx.panic_ord.setdefault((fr.fnkey, 'call'), {})
        pos = ins.get('pos') or {}
        ck = (callee, pos.get('line'), pos.get('col'))
        if ck not in ordn:
            ordn[ck] = sum(1 for k in ordn if k[0] == callee)
        me = cx.short if fr is cx.top else fr.fnkey.split('::')[1]
        for c in con.requires:
            name = '%s.call[%s#%d].requires[%s]' % (me, short, ordn[ck], c.label or c.line)
            try:
                g = ev.bool(c.expr)
            except SpecError as ex:
                cx.stale(name, str(ex))
                continue
            if c.label == 'typeinv':
                # a type invariant of the argument (e.g. items held by the VM are well-formed): used
                # where the caller can show it, otherwise assumed and listed
                if not cx.quick_valid(g):
                    cx.assumed_used.add('type invariant of an argument assumed at a call of %s in %s: %s' % (short, me, c.text))
                st.assume(g)
                continue
            if c.label == 'nopanic' and cx.contract.may_panic:
                # a panic guard of the callee: where it fails the callee panics, which a may-panic
                # function is allowed to do; the rest of the path has it
                st.assume(g)
                continue
            if c.label == 'nopanic' and cx.contract.panics_if:
                # the callee panics where its guard fails: allowed exactly under the caller's
                # stated panic condition (evaluated in the entry state)
                allowed = cx.panic_allowed(st, fr)
                cx.prove(st, z3.Or(g, allowed), name, 'call-requires', ins.get('pos'), c.text, assume_after=False)
                st.assume(g)
                continue
            cx.prove(st, g, name, 'call-requires', ins.get('pos'), c.text, assume_after=True)
        old = st.copy()
        # frame: havoc what the callee may modify
        targets = []
        for m in (con.modifies or []):
            try:
                targets.append(self.mod_target(ev, m.expr))
            except SpecError as ex:
                cx.stale('%s.call[%s].modifies' % (me, short), str(ex))
        st.bump_frontier('call')   # even side-effect free callees may allocate what they return
        for t in targets:
            self.havoc_target(st, t, 'mod')
        if not con.pure:
            self.havoc_boxed_pointees(st, args)
        vals = []
        for k, rt in enumerate(rtypes):
            v = V.fresh_val(types, rt, 'ret_%s_%d' % (short.split('.')[-1], st.callcount))
            st.type_facts(v)
            vals.append(v)
        renv = dict(env)
        for k, v in enumerate(vals):
            renv['result%d' % k] = v
            if k < len(rnames) and rnames[k] and rnames[k] != '_':
                renv.setdefault(rnames[k], v)
        if vals:
            renv['result'] = vals[0]
            if types.get(vals[-1].t).get('name') == 'error' and 'err' not in env:
                renv['err'] = vals[-1]
        ev2 = Ev(cx, st, renv, con.pkg, old, con.imports)
        for c in con.ensures:
            if mentions_ncalls(c.expr):
                continue   # about the callee's own calls: an obligation of its body, not a fact here
            if c.label.endswith('!'):
                cx.trusted_clauses.add('%s.ensures[%s] (unproved postcondition used at a call site): %s' % (short, c.label, c.text))
            try:
                st.assume(ev2.bool(c.expr))
            except SpecError as ex:
                cx.stale('%s.call[%s].ensures[%s]' % (me, short, c.label), str(ex))
        return vals

    def callsite_assumptions(self, st, fr, ins, callee, args):
        """`//@ call <pattern> ensures <expr>`: what the function under contract takes a callee's
        result to mean (trusted, listed in the evidence); evaluated after the call with result,
        result0.. and arg0.. bound"""
        cx = self.cx
        if fr is not cx.top or not getattr(cx.contract, 'call_ensures', None):
            return
        res = st.regs.get(ins.get('name')) if ins.get('name') else None
        for (pat, c) in cx.contract.call_ensures:
            if pat not in callee:
                continue
            env = {'arg%d' % k: a for k, a in enumerate(args)}
            if res is not None:
                env['result'] = res
                d = self.types.get(res.t)
                if d.get('k') == 'tuple':
                    for k, el in enumerate(d.get('elems') or []):
                        try:
                            env['result%d' % k] = res.sub(('#%d' % k,), el['type'])
                        except Exception:
                            pass
            ev = cx.evaluator(st, fr, old=cx.entry_state.with_sink(st), extra=env)
            try:
                st.assume(ev.bool(c.expr))
                cx.trusted_clauses.add('call-site assumption in %s about %s: %s' % (cx.short, pat, c.text))
            except SpecError as ex:
                cx.stale('%s.callsite[%s].ensures[%s]' % (cx.short, pat, c.label), str(ex))

    def callsite_obligations(self, st, fr, ins, callee, args):
        """`//@ call <pattern> requires <expr>` clauses of the function under contract: the
        expression (over arg0.. and the caller's variables) must hold at every matching call"""
        cx = self.cx
        if fr is not cx.top or not cx.contract.calls:
            return
        for (pat, c) in cx.contract.calls:
            if pat not in callee:
                continue
            env = {'arg%d' % k: a for k, a in enumerate(args)}
            ev = cx.evaluator(st, fr, old=cx.entry_state.with_sink(st), extra=env)
            cnt = cx.panic_ord.setdefault((fr.fnkey, 'callsite'), {})
            pos = ins.get('pos') or {}
            ck = (pat, c.label, pos.get('line'), pos.get('col'))
            if ck not in cnt:
                cnt[ck] = sum(1 for k in cnt if k[0] == pat and k[1] == c.label)
            name = '%s.callsite[%s#%d].requires[%s]' % (cx.short, pat, cnt[ck], c.label)
            try:
                g = ev.bool(c.expr)
            except SpecError as ex:
                if 'unknown identifier' in str(ex):
                    # the clause names a variable that is not in scope at this call site: it is
                    # about another call of the same callee (at least one site must evaluate it)
                    continue
                cx.stale(name, str(ex))
                continue
            cx.callsites_seen.add((pat, c.label))
            cx.prove(st, g, name, 'call-site', ins.get('pos'), c.text, assume_after=True)

    def call_invoke(self, st, fr, b, i, ins, recv, method, iface, args):
        cx = self.cx
        types = self.types
        self.panic_check(st, fr, ins, recv.lv[('t',)] != 0, 'nil')
        self.callsite_obligations(st, fr, ins, 'invoke ' + iface + '.' + method, [recv] + args)
        d = types.get(iface)
        iname = d.get('name') if d['k'] == 'named' else iface
        key = None
        if iname and '.' in iname:
            pkg, tn = iname.rsplit('.', 1)
            key = '%s::%s.%s' % (pkg, tn, method)
        elif iname == 'error':
            key = 'stdlib::error.%s' % method
        con = self.prog.cs.funcs.get(key) if key else None
        msig = types.get(call_msig(ins))
        rtypes = [r['type'] for r in (msig.get('results') or [])]
        if con is not None:
            pnames = [p['name'] or 'arg%d' % k for k, p in enumerate(msig.get('params') or [])]
            vals = self.apply_contract(st, fr, ins, con, key, ['recv'] + pnames, [recv] + args, rtypes, [])
            self.set_result(st, ins, vals)
            return None
        return self.call_opaque(st, fr, ins, 'invoke ' + (iname or iface) + '.' + method, [recv] + args, rtypes)

    def funcfield_contract(self, fr, fnv):
        """contract declared for the struct field a called function value was read from"""
        if fnv.get('k') != 'reg':
            return None
        d = self.def_instr(fr, fnv['name'])
        if d is None or d['op'] != 'UnOp' or d.get('uop') != '*':
            return None
        a = d['x']
        if a.get('k') != 'reg':
            return None
        fa = self.def_instr(fr, a['name'])
        if fa is None or fa['op'] != 'FieldAddr':
            return None
        pt = fa['x']['type']
        types = self.types
        if types.kind(pt) != 'ptr':
            return None
        dd = types.get(types.elem(pt))
        if dd.get('k') != 'named' or '.' not in dd['name']:
            return None
        pkg, tn = dd['name'].rsplit('.', 1)
        key = '%s::%s.%s' % (pkg, tn, fa['fname'])
        con = self.prog.cs.funcs.get(key)
        if con is not None and con.opts.get('funcfield') is not None:
            return key, con
        return None

    def funcvalue_name(self, fr, fnv):
        """'funcvalue T.f' for a called function value read from field f of struct type T"""
        if fnv.get('k') != 'reg':
            return 'funcvalue'
        d = self.def_instr(fr, fnv['name'])
        types = self.types
        tk = fname = None
        if d is not None and d['op'] == 'UnOp' and d.get('uop') == '*' and d['x'].get('k') == 'reg':
            fa = self.def_instr(fr, d['x']['name'])
            if fa is not None and fa['op'] == 'FieldAddr' and types.kind(fa['x']['type']) == 'ptr':
                tk, fname = types.elem(fa['x']['type']), fa['fname']
            elif fa is not None and fa['op'] == 'Alloc' and fa.get('comment'):
                return 'funcvalue:var.%s' % fa['comment']   # a local function variable held in a cell
        elif d is not None and d['op'] == 'Field':
            tk, fname = d['x'].get('type'), d['fname']
        if tk is None:
            return 'funcvalue'
        dd = types.get(tk)
        tn = dd['name'].rsplit('.', 1)[-1] if dd.get('k') == 'named' else tk
        return 'funcvalue:%s.%s' % (tn, fname)

    def call_funcvalue(self, st, fr, b, i, ins, fv, args):
        sig = self.types.desc(fv.t)
        rtypes = [r['type'] for r in (sig.get('results') or [])]
        self.callsite_obligations(st, fr, ins, self.funcvalue_name(fr, ins['call']['fn']), args)
        ff = self.funcfield_contract(fr, ins['call']['fn'])
        if ff is not None:
            key, con = ff
            pnames = [x for x in con.opts['funcfield'].split(',') if x]
            vals = self.apply_contract(st, fr, ins, con, key, pnames, args, rtypes, [])
            self.set_result(st, ins, vals)
            return None
        if self.cx.contract.opts.get('callbacks') == 'pure':
            self.cx.assumed_used.add('function-typed field callbacks in %s are assumed not to write memory under contract' % self.cx.short)
            vals = []
            st.callcount += 1
            for k, rt in enumerate(rtypes):
                v = V.fresh_val(self.types, rt, 'cb_%d' % st.callcount)
                st.type_facts(v)
                vals.append(v)
            self.set_result(st, ins, vals)
            return None
        return self.call_opaque(st, fr, ins, 'funcvalue ' + fv.t, args, rtypes)

    # ------------------------------------------------------------ higher-order library calls
    def closure_pred(self, st, fv):
        """(contract, param names, definition expr) of a pure closure/function used as a predicate:
        its contract must contain `ensures result == <expr>`"""
        fn = fv.fn
        if fn and fn.endswith('$bound'):
            fn = fn[:-len('$bound')]
        con = self.prog.cs.funcs.get(fn) if fn else None
        if con is None:
            return None
        for c in con.ensures:
            e = c.expr
            if e[0] == 'bin' and e[1] == '==' and e[2] == ('id', 'result'):
                return con, e[3]
        return None

    def ho_contains(self, st, fr, ins, callee, args):
        """slices.ContainsFunc(s, f) / IndexFunc: f's contract `ensures result == E` is the predicate"""
        cx = self.cx
        types = self.types
        s, f = args
        pr = self.closure_pred(st, f)
        if pr is None:
            return self.call_opaque(st, fr, ins, callee, args)
        con, body = pr
        cx.assumed_used.add(callee.split('[')[0] + ' (built-in contract: exists over the predicate closure contract)')
        bound = bool(f.fn and f.fn.endswith('$bound'))
        fname = f.fn[:-len('$bound')] if bound else f.fn
        fnd = self.prog.funcs.get(fname) or {}
        sig = self.prog.sigs.get(fname) or {}
        params = fnd.get('params') or sig.get('params') or []
        fvs = fnd.get('freevars') or []
        me = cx.short if fr is cx.top else fr.fnkey.split('::')[1]

        def pred_at(k, quant=True, which='body'):
            elem = st.load(st.elem_loc(s, k), facts=False)
            env = {}
            pn = params[-1]['name'] if params else 'arg0'
            env[pn] = Val(params[-1]['type'], elem.lv) if params else elem
            if bound and len(params) >= 2 and f.bindings:
                env[params[0]['name']] = f.bindings[0]   # receiver of a bound method value
            # free variables:
            for fvd, bv in zip(fvs, f.bindings or []):
                if types.kind(bv.t) == 'ptr' and types.kind(fvd['type']) == 'ptr':
                    env[fvd['name']] = (lambda bv=bv: st.load(st.ptr_loc(bv), facts=False))
                else:
                    env[fvd['name']] = bv
            ev = Ev(cx, st, env, con.pkg, None, con.imports, None, quant)
            if which == 'body':
                return ev.bool(body)
            return z3.And([ev.bool(c.expr) for c in con.requires]) if con.requires else z3.BoolVal(True)
        n = s.lv[('l',)]
        k = z3.Int(fresh_name('hk'))
        try:
            req = pred_at(k, True, 'req')
            cx.prove(st, z3.ForAll([k], z3.Implies(z3.And(k >= 0, k < n), req)),
                     '%s.call[%s].predicate-requires' % (me, callee.split('::')[1].split('[')[0]), 'call-requires',
                     ins.get('pos'), 'precondition of the predicate closure on every element')
            bodyk = pred_at(k)
        except SpecError as ex:
            cx.stale('%s.call[%s]' % (me, callee), str(ex))
            return self.call_opaque(st, fr, ins, callee, args)
        rt = ins['type']
        ka, bodya, rngk = self.abs_index(s, k, bodyk, n)
        if 'IndexFunc' in callee:
            r = z3.Int(fresh_name('idx'))
            j = z3.Int(fresh_name('hj'))
            st.assume(z3.And(r >= -1, r < n))
            st.assume(z3.Implies(r >= 0, z3.substitute(bodyk, (k, r))))
            st.assume(z3.ForAll([j], z3.Implies(z3.And(j >= 0, j < z3.If(r >= 0, r, n)), z3.Not(z3.substitute(bodyk, (k, j))))))
            st.regs[ins['name']] = scalar(rt, r)
        else:
            st.regs[ins['name']] = scalar(rt, z3.Exists([ka], z3.And(rngk, bodya)))
        return None

    def ho_sort_search(self, st, fr, ins, callee, args):
        """sort.Search(n, f): some index in [0, n]; f must not write memory (checked on its body)"""
        cx = self.cx
        n, f = args
        fnd = self.prog.funcs.get(f.fn) if f.fn else None
        if fnd is None or self.body_writes(st, f.fn, fnd) not in ([],):
            return self.call_opaque(st, fr, ins, callee, args)
        cx.assumed_used.add('sort::Search (built-in contract: 0 <= result <= n, panics only if the predicate does)')
        r = z3.Int(fresh_name('search'))
        st.assume(z3.And(r >= 0, r <= n.term))
        st.regs[ins['name']] = scalar(ins['type'], r)
        return None

    def abs_index(self, s, k, body, n):
        """re-express a formula over the relative index k of slice s over the absolute index"""
        off = s.lv[('o',)]
        if ops.const_val(off) == 0:
            return k, body, z3.And(k >= 0, k < n)
        a = z3.Int(fresh_name('ha'))
        body2 = z3.simplify(z3.substitute(body, (k, a - off)), som=True)
        return a, body2, z3.And(a >= off, a < off + n)

    def ho_contains_val(self, st, fr, ins, callee, args):
        cx = self.cx
        types = self.types
        s, v = args
        cx.assumed_used.add(callee.split('[')[0] + ' (built-in contract: exists i: s[i] == v)')
        n = s.lv[('l',)]
        k = z3.Int(fresh_name('hk'))
        elem = st.load(st.elem_loc(s, k), facts=False)
        eq = V.eq_vals(types, Val(v.t, elem.lv), v, None)
        rt = ins['type']
        ka, eqa, rngk = self.abs_index(s, k, eq, n)
        if 'Index[' in callee:
            r = z3.Int(fresh_name('idx'))
            j = z3.Int(fresh_name('hj'))
            st.assume(z3.And(r >= -1, r < n))
            st.assume(z3.Implies(r >= 0, z3.substitute(eq, (k, r))))
            st.assume(z3.ForAll([j], z3.Implies(z3.And(j >= 0, j < z3.If(r >= 0, r, n)), z3.Not(z3.substitute(eq, (k, j))))))
            st.regs[ins['name']] = scalar(rt, r)
        else:
            st.regs[ins['name']] = scalar(rt, z3.Exists([ka], z3.And(rngk, eqa)))
        return None

    # ------------------------------------------------------------ inlining
    def call_inline(self, st, fr, b, i, ins, callee, fnd, binds, args, cont=None):
        from .engine import Frame
        cx = self.cx
        cx.inlined.add(callee)
        saved = st.regs
        caller_regs = dict(st.regs)

        def on_return(st2, vals):
            callee_regs = st2.regs
            st2.regs = dict(caller_regs_holder[0])
            self.set_result(st2, ins, vals)
            if cont is not None:
                cont(st2)
                return
            cx.exec_from(st2, fr, b, i + 1)
        caller_regs_holder = [caller_regs]
        nf = Frame(callee, fnd, cx.cfg_of(callee), on_return, fr.depth + 1)
        st.regs = {}
        for p, a in zip(fnd.get('params') or [], args):
            st.regs[p['name']] = a
        for p, a in zip(fnd.get('freevars') or [], binds):
            st.regs[p['name']] = a
        # the callee sees the caller's registers only through its parameters; registers are
        # restored from the snapshot at return (SSA registers are immutable)
        cx.run_block(st, nf, 0, None)
        return 'stop'

    # ------------------------------------------------------------ opaque
    def call_opaque(self, st, fr, ins, callee, args, rtypes=None):
        cx = self.cx
        types = self.types
        cx.opaque_calls.add(callee)
        if rtypes is None:
            sig = self.prog.sigs.get(callee)
            if sig is not None:
                rtypes = [r['type'] for r in (sig.get('results') or [])]
            else:
                t = ins.get('type')
                d = types.get(t) if t else None
                if d is None or t == '()':
                    rtypes = []
                elif d['k'] == 'tuple':
                    rtypes = [e['type'] for e in d['elems']]
                else:
                    rtypes = [t]
        for a in args:
            if a.lv is None or a.arr is not None:
                # interior pointers handed to unknown code: the whole region is havocked anyway
                pass
        self.escape(st, args)
        saved = [(loc, st.load(loc, facts=False)) for loc in st.locals]
        stable = self.stable_snapshot(st, fr)
        st.bump_frontier('opaque')
        ev = Event(fresh_evid(), lambda key: True, st.frontier, None, 'opaque:' + callee)
        st.heap.havoc(ev, st.alloc0, opaque=True)
        for loc, v in saved:
            st.store(loc, v)
        self.restore_stable(st, stable)
        self.havoc_boxed_pointees(st, args)
        st.callcount += 1
        vals = []
        for k, rt in enumerate(rtypes):
            v = V.fresh_val(types, rt, 'opq_%d' % st.callcount)
            st.type_facts(v)
            vals.append(v)
        self.set_result(st, ins, vals)
        return None

    def havoc_boxed_pointees(self, st, args):
        """an interior pointer passed inside an interface value (e.g. &x.f as `any`): the callee may
        write through it, whatever its contract says about named locations"""
        for a in args:
            if isinstance(a, Val) and self.types.kind(a.t) == 'iface':
                l = a.loc
                if l is None:
                    try:
                        l = V.loc_of_handle(a.lv[('p',)])
                    except OutOfSubset:
                        l = None
                if l is not None:
                    nv = V.fresh_val(self.types, l.t, 'boxedptr')
                    st.store(l, nv)
                    st.load(l)

    def restore_stable(self, st, stable):
        cx = self.cx
        for (txt, l, v) in stable:
            if isinstance(l, tuple) and l and l[0] == 'rows':
                for (key, srt, row) in l[2]:
                    cur = st.heap.get(key, st.heap.sorts.get(key, srt), st.alloc0)
                    st.heap.set(key, z3.Store(cur, l[1], row))
                cx.assumed_used.add('frame-stable over opaque calls (assumed): ' + txt)
            elif l is not None:
                st.store(l, v)
                cx.assumed_used.add('frame-stable over opaque calls (assumed): ' + txt)

    def stable_snapshot(self, st, fr):
        """(text, loc, value) of the locations declared frame-stable, and of the cells of the
        variables captured by a closure under contract (locals of the enclosing function)"""
        cx = self.cx
        stable = []
        if fr is not cx.top:
            return stable
        sf = cx.contract.opts.get('stable-from')
        if sf and st.ghost.get('stable-on') is None:
            return stable   # the stability assumption starts at the first call of the named callee
        if cx.contract.opts.get('stable'):
            from .contracts import split_top
            from . import exprparse
            ev0 = cx.evaluator(st, fr)
            for txt in split_top(cx.contract.opts['stable']):
                try:
                    if txt.strip().endswith('[*]'):
                        # every element of a slice: the rows of its backing array
                        sv = ev0.deref_auto(ev0.ev(exprparse.parse(txt.strip()[:-3])))
                        if self.types.kind(sv.t) != 'slice' or sv.arr is not None:
                            continue
                        el = st.elem_loc(sv, z3.IntVal(0))
                        rows = []
                        for (q, srt, role, key, term) in st.loc_regions(el):
                            rows.append((key, srt, z3.Select(term, sv.lv[('b',)])))
                        stable.append((txt, ('rows', sv.lv[('b',)], rows), None))
                        continue
                    l = ev0.loc(exprparse.parse(txt))
                    stable.append((txt, l, st.load(l, facts=False)))
                except SpecError as ex:
                    import os as _os
                    if _os.environ.get('VCGEN_STABLE_DEBUG'):
                        print('STABLE-SKIP', txt, ex)
        for n in getattr(cx, 'freevar_names', []):
            reg = st.regs.get(n)
            if reg is not None and self.types.kind(reg.t) == 'ptr' and reg.lv is not None:
                l = st.ptr_loc(reg)
                stable.append(('captured variable ' + n, l, st.load(l, facts=False)))
        return stable

    def escapes_to(self, loc, args):
        """a non-escaping local can still be passed by address to this very call"""
        for a in args:
            if a.loc is not None and a.loc.ref is loc.ref:
                return True
            if a.lv is not None:
                for t in a.lv.values():
                    if z3.is_int(t) and t.eq(loc.ref):
                        return True
        return False

    def call_writes(self, st, fr, ins, body):
        """static write set of a call inside a loop: 'all' or list of (prefix, base)"""
        from .instrs import ERASED_CALLS
        call = ins['call']
        if 'invoke' in call:
            iface = call['iface']
            d = self.types.get(iface)
            iname = d.get('name') if d['k'] == 'named' else iface
            if iname and '.' in iname:
                pkg, tn = iname.rsplit('.', 1)
                con = self.prog.cs.funcs.get('%s::%s.%s' % (pkg, tn, call['invoke']))
            elif iname == 'error':
                con = self.prog.cs.funcs.get('stdlib::error.' + call['invoke'])
            else:
                con = None
            if con is None:
                return 'all'
            return self.contract_writes(st, con, None)
        fnv = call['fn']
        if fnv['k'] == 'builtin':
            n = fnv['name']
            if n in ('append', 'copy'):
                a0 = call['args'][0]
                et = self.types.elem(a0['type'])
                base = None
                if n == 'copy' and self.defined_outside(fr, a0, body):
                    sv = self.operand(st, fr, a0)
                    if sv.arr is None:
                        base = sv.lv[('b',)]
                return [(('elems', st.elems_tk(et), ('[]',)), base)]
            if n in ('delete', 'clear'):
                a0 = call['args'][0]
                if self.types.kind(a0['type']) == 'map':
                    return [(('map', self.types.under(a0['type']), ()), None)]
                return 'all'
            return []
        if fnv['k'] == 'func':
            from .program import normfn
            callee = normfn(fnv['name'])
        else:
            if self.closure_static(fr, fnv):
                return self.closure_writes(st, fr, fnv, body)
            if self.cx.contract.opts.get('callbacks') == 'pure':
                return []   # same assumption as at the call itself (listed in the evidence)
            return 'all'
        if callee in ERASED_CALLS:
            return []
        con = self.prog.cs.funcs.get(callee)
        if con is None or con.inline:
            fnd = self.prog.funcs.get(callee)
            if fnd is not None and (con is not None and con.inline):
                return self.body_writes(st, callee, fnd)
            return 'all'
        sig = self.prog.sigs.get(callee) or {}
        real = [self.loopinv_value(st, fr, a, body) for a in call['args']]
        return self.contract_writes(st, con, sig, real)

    def closure_defs(self, fr, fnv, depth=0):
        """the MakeClosure instructions a function-valued register can come from (through phis),
        or None when it is not statically known"""
        if fnv['k'] != 'reg' or depth > 4:
            return None
        d = self.def_instr(fr, fnv['name'])
        if d is None:
            return None
        if d['op'] == 'MakeClosure':
            return [d]
        if d['op'] == 'Phi':
            out = []
            for e in d['edges']:
                r = self.closure_defs(fr, e, depth + 1)
                if r is None:
                    return None
                out += r
            return out
        return None

    def closure_static(self, fr, fnv):
        return self.closure_defs(fr, fnv) is not None

    def closure_writes(self, st, fr, fnv, body):
        out = []
        for d in self.closure_defs(fr, fnv):
            callee = d['fn']['name']
            fnd = self.prog.funcs.get(callee)
            if fnd is None:
                return 'all'
            con = self.prog.cs.funcs.get(callee)
            if con is not None and not con.inline:
                if con.modifies:
                    return 'all'
                continue
            w = self.body_writes(st, callee, fnd)
            if w == 'all':
                return 'all'
            out += w
        return out

    def body_writes(self, st, callee, fnd):
        """write set of an inlinable body, by type only (no base refinement)"""
        from .engine import Frame
        cfg = self.cx.cfg_of(callee)
        fr2 = Frame(callee, fnd, cfg, None, 1)
        out = []
        allb = set(range(cfg.n))
        for blk in cfg.blocks:
            for ins in blk['instrs']:
                op = ins['op']
                if op == 'Store':
                    t = self.static_target_types(fr2, ins['addr'])
                    if t is None:
                        return 'all'
                    if t[0] != 'fresh':
                        out.append(((t[0], t[1], t[2]), None))
                elif op == 'MapUpdate':
                    out.append((('map', self.types.under(ins['map']['type']), ()), None))
                elif op in ('Call', 'Defer'):
                    w = self.call_writes(st, fr2, ins, allb)
                    if w == 'all':
                        return 'all'
                    out += [(p, None) for (p, b) in w]
        return out

    def static_target_types(self, fr, o):
        types = self.types
        steps = []
        cur = o
        while cur['k'] == 'reg':
            ins = self.def_instr(fr, cur['name'])
            if ins is None:
                return None
            if ins['op'] == 'FieldAddr':
                steps.append('.' + ins['fname'])
                cur = ins['x']
            elif ins['op'] == 'IndexAddr':
                xt = ins['x']['type']
                if types.kind(xt) == 'slice':
                    et = types.elem(xt)
                    tk = types.canon(et) if types.kind(et) == 'struct' else types.under(et)
                    return ('elems', tk, ('[]',) + tuple(reversed(steps)))
                steps.append('[]')
                cur = ins['x']
            elif ins['op'] == 'Alloc':
                return ('fresh',)
            else:
                break
        pt = cur['type']
        if types.kind(pt) != 'ptr':
            return None
        et = types.elem(pt)
        k = types.kind(et)
        if k == 'struct':
            return ('obj', types.canon(et), tuple(reversed(steps)))
        if k == 'array':
            ee = types.elem(et)
            tk = types.canon(ee) if types.kind(ee) == 'struct' else types.under(ee)
            return ('elems', tk, tuple(reversed(steps)))
        return ('cell', types.under(et), tuple(reversed(steps)))

    def contract_writes(self, st, con, sig, real=None):
        """region prefixes a contract's modifies clause can touch (by type)"""
        if not con.modifies:
            return []
        types = self.types
        out = []
        tmp = st.copy()
        saved_solver_add = self.cx.solver_add
        self.cx.solver_add = lambda f: None
        try:
            env = {}
            if sig is not None:
                placeholders = set()
                for k, p in enumerate(sig.get('params') or []):
                    if real is not None and k < len(real) and real[k] is not None:
                        env[p['name']] = real[k]
                    else:
                        fv = V.fresh_val(types, p['type'], 'w_' + p['name'])
                        env[p['name']] = fv
                        for t in (fv.lv or {}).values():
                            placeholders.add(t.get_id())

                def known(ref):
                    # the reference is determined by arguments that are fixed across iterations
                    if real is None:
                        return False
                    todo = [ref]
                    seen = set()
                    while todo:
                        x = todo.pop()
                        i = x.get_id()
                        if i in seen:
                            continue
                        seen.add(i)
                        if i in placeholders:
                            return False
                        todo.extend(x.children())
                    return True
            else:
                return 'all'
            ev = Ev(self.cx, tmp, env, con.pkg, None, con.imports)
            for m in con.modifies:
                try:
                    t = self.mod_target(ev, m.expr)
                except SpecError:
                    return 'all'
                if t.kind == 'loc':
                    out.append(((t.loc.fam, t.loc.tk, t.loc.static_path()), t.loc.ref if known(t.loc.ref) else None))
                elif t.kind == 'range':
                    if t.arr is not None:
                        return 'all'
                    out.append((('elems', t.tk, ('[]',)), t.sl.lv[('b',)] if known(t.sl.lv[('b',)]) else None))
                elif t.kind == 'map':
                    out.append((('map', t.tk, ()), t.ref if known(t.ref) else None))
                elif t.kind == 'region':
                    out.append(((t.fam, t.tk, tuple(getattr(t, 'prefix', None) or ())), None))
        finally:
            self.cx.solver_add = saved_solver_add
        return out

    # ------------------------------------------------------------ builtins
    def call_builtin(self, st, fr, b, i, ins, name, args):
        types = self.types
        rt = ins.get('type')
        if name == 'len':
            x = args[0]
            k = types.kind(x.t)
            if k == 'slice':
                r = x.lv[('l',)]
            elif k == 'string':
                r = x.lv[('n',)]
            elif k == 'map':
                mt = types.under(x.t)
                key, reg = st.region('map', mt, ('len',), 'I')
                r = z3.If(x.term == 0, 0, z3.Select(reg, x.term))
                st.assume(z3.Select(reg, x.term) >= 0)
            elif k == 'array':
                r = z3.IntVal(types.desc(x.t)['len'])
            elif k == 'ptr':
                r = z3.IntVal(types.desc(types.elem(x.t))['len'])
            elif k == 'chan':
                r = z3.Int(fresh_name('chanlen'))
                st.assume(r >= 0)
            else:
                raise OutOfSubset('len of ' + k)
            st.regs[ins['name']] = scalar(rt, r)
            return None
        if name == 'cap':
            x = args[0]
            k = types.kind(x.t)
            if k == 'slice':
                r = x.lv[('c',)]
            elif k == 'array':
                r = z3.IntVal(types.desc(x.t)['len'])
            else:
                raise OutOfSubset('cap of ' + k)
            st.regs[ins['name']] = scalar(rt, r)
            return None
        if name in ('min', 'max'):
            if types.kind(args[0].t) != 'int':
                raise OutOfSubset('min/max on non-int')
            r = args[0].term
            for a in args[1:]:
                r = z3.If(a.term < r, a.term, r) if name == 'min' else z3.If(a.term > r, a.term, r)
            st.regs[ins['name']] = scalar(rt, r)
            return None
        if name == 'delete':
            self.map_delete(st, fr, ins, args[0], args[1])
            return None
        if name == 'clear':
            x = args[0]
            if types.kind(x.t) == 'map':
                mt = types.under(x.t)
                kh, has = st.region('map', mt, ('has',), ('A', 'B'))
                kl, ln = st.region('map', mt, ('len',), 'I')
                st.heap.set(kh, z3.Store(has, x.term, z3.K(I, z3.BoolVal(False))))
                st.heap.set(kl, z3.Store(ln, x.term, z3.IntVal(0)))
                return None
            if types.kind(x.t) == 'slice':
                # clear(s) zeroes the elements: modelled as unknown new contents of exactly that
                # range (weaker than "all zero", sound for everything proved afterwards)
                from .instrs import ModTarget
                et = types.elem(x.t)
                t = ModTarget('range', sl=x, arr=x.arr, tk=st.elems_tk(et), lo=x.lv[('o',)], hi=x.lv[('o',)] + x.lv[('l',)])
                self.havoc_target(st, t, 'clear')
                return None
            raise OutOfSubset('clear of ' + types.kind(x.t))
        if name == 'copy':
            return self.builtin_copy(st, fr, ins, args)
        if name == 'append':
            return self.builtin_append(st, fr, b, i, ins, args)
        if name in ('print', 'println', 'close'):
            return None
        if name == 'recover':
            v = V.zero_val(types, rt)
            st.regs[ins['name']] = v
            return None
        if name == 'ssa:wrapnilchk':
            self.nonnil(st, fr, ins, args[0])
            st.regs[ins['name']] = args[0]
            return None
        raise OutOfSubset('builtin ' + name)

    def rows(self, st, sl):
        """[(leafpath, sort, key or None, region or None, row)] of the backing array of slice sl"""
        types = self.types
        out = []
        if types.kind(sl.t) == 'string':
            return [((), 'I', None, None, sl.lv[('s',)])]
        et = types.elem(sl.t)
        if sl.arr is not None:
            base = sl.arr
            v = st.load(Loc(base.fam, base.tk, base.ref, base.steps, base.t), facts=False)
            for (p, s, role) in types.leaves(et):
                out.append((p, s, None, None, v.lv[('[]',) + p]))
            return out
        for (p, s, role) in types.leaves(et):
            key, reg = st.region('elems', st.elems_tk(et), ('[]',) + p, ('A', s))
            out.append((p, s, key, reg, z3.Select(reg, sl.lv[('b',)])))
        return out

    def write_rows(self, st, sl, newrows):
        types = self.types
        et = types.elem(sl.t)
        if sl.arr is not None:
            base = sl.arr
            aloc = Loc(base.fam, base.tk, base.ref, base.steps, base.t)
            old = st.load(aloc, facts=False)
            lv = dict(old.lv)
            for p, row in newrows.items():
                lv[('[]',) + p] = row
            st.store(aloc, Val(aloc.t, lv))
            return
        for p, row in newrows.items():
            s = [x for x in types.leaves(et) if x[0] == p][0][1]
            key, reg = st.region('elems', st.elems_tk(et), ('[]',) + p, ('A', s))
            st.heap.set(key, z3.Store(reg, sl.lv[('b',)], row))

    def builtin_copy(self, st, fr, ins, args):
        types = self.types
        dst, src = args
        dl = dst.lv[('l',)]
        sl_ = src.lv[('l',)] if types.kind(src.t) == 'slice' else src.lv[('n',)]
        n = z3.If(dl <= sl_, dl, sl_)
        so = src.lv[('o',)] if types.kind(src.t) == 'slice' else z3.IntVal(0)
        do = dst.lv[('o',)]
        srows = self.rows(st, src)
        drows = self.rows(st, dst)
        new = {}
        cn = ops.const_val(n)
        for (p, s, key, reg, drow), (_, _, _, _, srow) in zip(drows, srows):
            if cn is not None and cn <= 40:
                r = drow
                for j in range(cn):
                    r = z3.Store(r, do + j, z3.Select(srow, so + j))
                new[p] = r
            else:
                r = z3.Const(fresh_name('copy_row'), drow.sort())
                k = z3.Int(fresh_name('k'))
                st.assume(z3.ForAll([k], z3.Select(r, k) == z3.If(z3.And(k >= do, k < do + n),
                                                                  z3.Select(srow, so + (k - do)), z3.Select(drow, k))))
                new[p] = r
        self.write_rows(st, dst, new)
        if 'name' in ins:
            st.regs[ins['name']] = scalar(ins.get('type') or 'int', n)
        return None

    def builtin_append(self, st, fr, b, i, ins, args):
        types = self.types
        cx = self.cx
        s, t = args
        rt = ins['type']
        tn = t.lv[('l',)] if types.kind(t.t) == 'slice' else t.lv[('n',)]
        to = t.lv[('o',)] if types.kind(t.t) == 'slice' else z3.IntVal(0)
        sn, sc, so = s.lv[('l',)], s.lv[('c',)], s.lv[('o',)]
        n = sn + tn
        trows = self.rows(st, t)
        ctn = ops.const_val(tn)

        def cont(child, which):
            srows = self.rows(child, s)
            trows2 = self.rows(child, t)
            if which == 0:
                # in place
                new = {}
                for (p, sd, key, reg, srow), (_, _, _, _, trow) in zip(srows, trows2):
                    if ctn is not None and ctn <= 40:
                        r = srow
                        for j in range(ctn):
                            r = z3.Store(r, so + sn + j, z3.Select(trow, to + j))
                    else:
                        r = z3.Const(fresh_name('app_row'), srow.sort())
                        k = z3.Int(fresh_name('k'))
                        child.assume(z3.ForAll([k], z3.Select(r, k) == z3.If(
                            z3.And(k >= so + sn, k < so + n), z3.Select(trow, to + (k - so - sn)), z3.Select(srow, k))))
                    new[p] = r
                self.write_rows(child, s, new)
                res = Val(rt, {('b',): s.lv[('b',)], ('o',): so, ('l',): n, ('c',): sc}, arr=s.arr)
            else:
                ref = child.new_ref('append')
                ncap = z3.Int(fresh_name('newcap'))
                child.assume(ncap >= n)
                res = Val(rt, {('b',): ref, ('o',): z3.IntVal(0), ('l',): n, ('c',): ncap})
                new = {}
                for (p, sd, key, reg, srow), (_, _, _, _, trow) in zip(srows, trows2):
                    r = z3.Const(fresh_name('app_new'), srow.sort())
                    k = z3.Int(fresh_name('k'))
                    csn = ops.const_val(sn)
                    if ctn is not None and ctn <= 40 and csn is not None and csn <= 40:
                        r = z3.K(I, V.zero_leaf(sd))
                        for j in range(csn):
                            r = z3.Store(r, j, z3.Select(srow, so + j))
                        for j in range(ctn):
                            r = z3.Store(r, csn + j, z3.Select(trow, to + j))
                    else:
                        child.assume(z3.ForAll([k], z3.Select(r, k) == z3.If(
                            k < sn, z3.Select(srow, so + k), z3.If(k < n, z3.Select(trow, to + (k - sn)), V.zero_leaf(sd)))))
                    new[p] = r
                self.write_rows(child, res, new)
            child.regs[ins['name']] = res
        cx.fork_cond(st, [n <= sc, n > sc], cont, lambda m: cx.exec_from(m, fr, b, i + 1))
        return 'forked'


def call_msig(ins):
    return ins['call']['msig']


_evid = [1000000]


def fresh_evid():
    _evid[0] += 1
    return _evid[0]
