"""Symbolic state: registers, heap with havoc events, assumptions, allocation frontier."""
import z3
from .sym import (I, B, Val, Loc, scalar, sort_of, lift, fresh_name, pathstr,
                  OutOfSubset, EngineError, MATHINT)


MAXINT = (1 << 63) - 1
MAXLEN = 1 << 48   # standing assumption: no slice, string or map has more than 2^48 elements


def keyname(key):
    fam, tk, path = key
    if len(tk) > 48:
        import zlib
        tk = 'T%08x' % zlib.crc32(tk.encode())
    s = '%s|%s|%s' % (fam, tk, pathstr(path))
    import re as _re
    return _re.sub(r'[^A-Za-z0-9_.|\[\]*/-]', '_', s)


class Event:
    __slots__ = ('id', 'match', 'frontier', 'only_refs', 'why')

    def __init__(self, id, match, frontier, only_refs, why):
        self.id = id
        self.match = match          # function key -> bool
        self.frontier = frontier    # frontier term after the event
        self.only_refs = only_refs  # None or {region-prefix: [ref terms]} restricting the havoc
        self.why = why


class JoinEvent:
    """marker in a heap's event list: the states of several arms were merged here"""

    def __init__(self, branches):
        self.branches = branches   # [(condition, events list of the arm)]

    def match(self, key):
        return False


class Heap:
    def __init__(self, types):
        self.types = types
        self.r = {}        # key -> current term
        self.layers = {}   # key -> list of (base term, frontier) whose contents are "unknown memory"
        self.events = []
        self.sorts = {}    # key -> leaf sort desc (lifted)
        self.touched = set()   # keys written explicitly or havocked since entry
        self.opaque = set()    # keys havocked by opaque calls (frame not checkable)
        self.frames = {}       # key -> [(havocked array, array before, frontier)]: rows <= frontier equal
        self.opaque_any = False

    def copy(self):
        h = Heap(self.types)
        h.r = dict(self.r)
        h.layers = dict(self.layers)
        h.events = list(self.events)
        h.sorts = self.sorts  # shared, append-only
        h.touched = set(self.touched)
        h.opaque = set(self.opaque)
        h.frames = dict(self.frames)
        h.opaque_any = self.opaque_any
        return h

    def const(self, tag, key):
        return z3.Const('%s_%s' % (tag, keyname(key)), z3.ArraySort(I, sort_of(self.sorts[key])))

    def base(self, key, upto, alloc0, events=None):
        """term and unknown-memory layers of region `key` just after event index upto-1"""
        events = self.events if events is None else events
        for j in range(upto - 1, -1, -1):
            ev = events[j]
            if isinstance(ev, JoinEvent):
                # arms with different havoc histories were joined here: the region is the
                # arm-wise choice of what each history gives
                terms = []
                layers = []
                for (c, evs) in ev.branches:
                    t, ls = self.base(key, len(evs), alloc0, evs)
                    terms.append(t)
                    layers += ls
                r = terms[-1]
                for (c, evs), t in zip(reversed(ev.branches[:-1]), reversed(terms[:-1])):
                    r = z3.If(c, t, r)
                return r, layers
            if ev.match(key):
                fresh = self.const('H%d' % ev.id, key)
                refs = restrict_refs(ev, key)
                if refs is None:
                    return fresh, [(fresh, ev.frontier)]
                prev, layers = self.base(key, j, alloc0, events)
                t = prev
                for ref in refs:
                    t = z3.Store(t, ref, z3.Select(fresh, ref))
                return t, layers + [(fresh, ev.frontier)]
        c = self.const('H0', key)
        return c, [(c, alloc0)]

    def get(self, key, sortdesc, alloc0):
        if key not in self.r:
            self.sorts.setdefault(key, sortdesc)
            t, layers = self.base(key, len(self.events), alloc0)
            self.r[key] = t
            self.layers[key] = layers
        return self.r[key]

    def set(self, key, term):
        self.r[key] = term
        self.touched.add(key)

    def havoc(self, ev, alloc0, opaque=False):
        """apply a havoc event to all materialised regions and remember it for lazy ones"""
        self.events = self.events + [ev]
        for key in list(self.r.keys()):
            if ev.match(key):
                fresh = self.const('H%d' % ev.id, key)
                refs = restrict_refs(ev, key)
                if refs is None:
                    self.r[key] = fresh
                    self.layers[key] = [(fresh, ev.frontier)]
                else:
                    t = self.r[key]
                    for ref in refs:
                        t = z3.Store(t, ref, z3.Select(fresh, ref))
                    self.r[key] = t
                    self.layers[key] = self.layers.get(key, []) + [(fresh, ev.frontier)]
                self.touched.add(key)
                if opaque:
                    self.opaque.add(key)
        if opaque:
            self.opaque_any = True


def restrict_refs(ev, key):
    if ev.only_refs is None:
        return None
    # only_refs: dict prefix-key (fam, tk, pathprefix) -> list of refs ; None value = unrestricted
    best = None
    for pk, refs in ev.only_refs.items():
        if key[0] == pk[0] and key[1] == pk[1] and key[2][:len(pk[2])] == pk[2]:
            if refs is None:
                return None
            best = (best or []) + list(refs)
    return best


class State:
    def __init__(self, cx):
        self.cx = cx
        self.regs = {}
        self.heap = Heap(cx.types)
        self.assumptions = []
        self.alloc0 = z3.Int('alloc0')
        self.frontier = self.alloc0
        self.nalloc = 0
        self.loops = {}      # header idx -> dict(info)
        self.defers = []
        self.locals = []     # (ref, region keys) of non-escaping allocs
        self.closures = {}   # python-level closure registry: name -> (fnkey, bindings)
        self.notes = []
        self.callcount = 0
        self.trace = []      # block indices
        self.toptrace = []
        self.ghost = {}      # named ghost scalars (e.g. call log counters)
        self.names = {}      # source identifier -> ('reg'|'addr', register)
        self.names_seen = set()   # identifiers bound at some point of this path (or of a merged arm)
        self.ro = {}             # (frame id, register) -> callee whose read-only result it derives from
        self.assumed_ids = set()
        self.pathconds = []
        self.stops = []
        self.sink = None
        self.subcache = {}   # (row id, offset id) -> shifted-sequence constant
        self.defs = set()    # ids of assumptions that define fresh symbols (valid on every path)
        self.keyterms = []   # ground map-key terms of byte strings seen so far (instantiation candidates)
        self.keyfacts = []   # assumed facts quantified over map keys: instantiated at every key term seen

    def copy(self):
        s = State.__new__(State)
        s.cx = self.cx
        s.regs = dict(self.regs)
        s.heap = self.heap.copy()
        s.assumptions = list(self.assumptions)
        s.alloc0 = self.alloc0
        s.frontier = self.frontier
        s.nalloc = self.nalloc
        s.loops = dict(self.loops)
        s.defers = list(self.defers)
        s.locals = list(self.locals)
        s.closures = self.closures
        s.notes = self.notes
        s.callcount = self.callcount
        s.trace = list(self.trace)
        s.toptrace = list(self.toptrace)
        s.ghost = dict(self.ghost)
        s.names = dict(self.names)
        s.names_seen = set(getattr(self, 'names_seen', ()))
        s.ro = dict(getattr(self, 'ro', {}))
        s.assumed_ids = set(self.assumed_ids)
        s.pathconds = list(self.pathconds)
        s.stops = list(self.stops)
        s.sink = None
        s.subcache = dict(self.subcache)
        s.defs = set(self.defs)
        s.keyterms = list(getattr(self, 'keyterms', []))
        s.keyfacts = list(getattr(self, 'keyfacts', []))
        return s

    def with_sink(self, sink):
        """view of this (older) state whose derived facts are recorded in the current state"""
        s = State.__new__(State)
        s.__dict__.update(self.__dict__)
        s.sink = sink
        s.subcache = dict(self.subcache)
        return s

    # ---- assumptions
    def assume(self, f, definitional=False):
        if z3.is_true(f):
            return
        sink = getattr(self, 'sink', None)
        if sink is not None and sink is not self:
            try:
                sink.assume(f, definitional)
            except TypeError:
                sink.assume(f)
            return
        fid = f.get_id()
        if definitional:
            if not hasattr(self, 'defs'):
                self.defs = set()
            self.defs.add(fid)
        if fid in self.assumed_ids:
            return
        self.assumed_ids.add(fid)
        self.assumptions.append(f)
        self.cx.solver_add(f)

    # ---- allocation
    def new_ref(self, why='alloc'):
        self.nalloc += 1
        r = z3.Int(fresh_name('ref_' + why))
        self.assume(r == self.frontier + 1, definitional=True)    # r is a fresh symbol
        self.frontier = r
        return r

    def bump_frontier(self, why):
        f = z3.Int(fresh_name('frontier_' + why))
        self.assume(f >= self.frontier, definitional=True)     # f is a fresh symbol
        self.frontier = f
        return f

    # ---- regions
    def region(self, fam, tk, path, leafsort):
        key = (fam, tk, path)
        return key, self.heap.get(key, leafsort, self.alloc0)

    # ---- type facts for a loaded/received value
    def type_facts(self, val, known_old=False, bound=None):
        """assume the representation invariants of a value of its static type.
        known_old: the value existed at function entry (references <= alloc0)."""
        types = self.cx.types
        if val.lv is None:
            return
        for (p, s, role) in types.leaves(val.t):
            if p not in val.lv:
                continue
            t = val.lv[p]
            self.leaf_fact(t, role, known_old)
        k = types.kind(val.t)
        if k == 'slice':
            self.slice_facts(val)
        elif k == 'struct':
            self.nested_facts(val)
        elif k == 'array':
            self.array_facts(val)

    def nested_facts(self, val):
        types = self.cx.types
        for f in types.fields(val.t):
            k = types.kind(f['type'])
            if k == 'slice':
                self.slice_facts(val.sub(('.' + f['name'],), f['type']))
            elif k == 'struct':
                self.nested_facts(val.sub(('.' + f['name'],), f['type']))
            elif k == 'array':
                self.array_facts(val.sub(('.' + f['name'],), f['type']))

    def array_facts(self, val):
        """element ranges of a fixed array of integers"""
        types = self.cx.types
        et = types.elem(val.t)
        if types.kind(et) != 'int':
            return
        rng = types.int_range(et)
        if rng is None:
            return
        n = types.desc(val.t)['len']
        a = val.lv[('[]',)]
        aid = ('arr', a.get_id(), n)
        if aid in self.assumed_ids:
            return
        self.assumed_ids.add(aid)
        if n <= 64:
            self.assume(z3.And([z3.And(z3.Select(a, i) >= rng[0], z3.Select(a, i) <= rng[1]) for i in range(n)]))
        else:
            k = z3.Int(fresh_name('k'))
            self.assume(z3.ForAll([k], z3.And(z3.Select(a, k) >= rng[0], z3.Select(a, k) <= rng[1])))

    def slice_facts(self, v):
        b, o, l, c = v.lv[('b',)], v.lv[('o',)], v.lv[('l',)], v.lv[('c',)]
        self.assume(z3.And(o >= 0, l >= 0, l <= c, b >= 0, o + c <= MAXLEN, z3.Implies(b == 0, z3.And(l == 0, c == 0, o == 0))))

    def leaf_fact(self, t, role, known_old=False):
        kind = role[0]
        if kind == 'int':
            rng = self.cx.types.int_range(role[1])
            if rng is not None:
                self.assume(z3.And(t >= rng[0], t <= rng[1]))
        elif kind == 'ref':
            if self.cx.types.kind(role[1]) == 'ptr':
                # pointers may also be (negative) handles of interior pointers; the object a
                # pointer points into (ptrbase) is bounded like a plain reference, so that pointers
                # into objects allocated later are different from every older pointer value
                bound = self.alloc0 if known_old else self.frontier
                self.assume(t <= bound)
                from . import ops as _ops
                pb = _ops.uf('ptrbase', I, I)
                self.assume(z3.And(pb(t) <= bound, z3.Implies(t >= 0, pb(t) == t)))
            else:
                self.assume(z3.And(t >= 0, t <= (self.alloc0 if known_old else self.frontier)))
        elif kind == 'len':
            self.assume(z3.And(t >= 0, t <= MAXLEN))
        elif kind == 'tag':
            self.assume(t >= 0)

    # ---- load / store through locations
    def _region_terms(self, loc, q, s):
        path = loc.static_path() + q
        if loc.fam == 'elems':
            path = ('[]',) + path if not path or True else path
        nidx = len(loc.indices())
        return path, nidx

    def loc_regions(self, loc):
        """yield (leafpath q, sortdesc s, role, key, regionterm) for every leaf of loc.t"""
        types = self.cx.types
        sp = loc.static_path()
        nlift = sum(1 for x in sp if x == '[]')
        out = []
        for (q, s, role) in types.leaves(loc.t):
            full = sp + q
            key, term = self.region(loc.fam, loc.tk, full, lift(s, nlift))
            out.append((q, s, role, key, term))
        return out

    def load(self, loc, facts=True):
        lv = {}
        idxs = loc.indices()
        for (q, s, role, key, term) in self.loc_regions(loc):
            t = z3.Select(term, loc.ref)
            for ix in idxs:
                t = z3.Select(t, ix)
            lv[q] = t
            if facts:
                for (hp, pre, F) in self.heap.frames.get(key, ()):
                    self.assume(z3.Implies(loc.ref <= F, z3.Select(hp, loc.ref) == z3.Select(pre, loc.ref)))
            if facts:
                r = role
                while r[0] == 'lift':
                    r = None
                    break
                if r is not None:
                    self.leaf_fact(t, r)
                    if r[0] == 'ref':
                        for (bt, fr) in self.heap.layers.get(key, []):
                            u = z3.Select(bt, loc.ref)
                            for ix in idxs:
                                u = z3.Select(u, ix)
                            # what a layer holds at an object that already existed when the layer was
                            # written was allocated by then; objects created later (e.g. inside a
                            # contracted callee) carry no such bound
                            self.assume(z3.Implies(loc.ref <= fr, u <= fr))
        v = Val(loc.t, lv)
        if facts:
            k = self.cx.types.kind(loc.t)
            if k == 'slice':
                self.slice_facts(v)
            elif k == 'struct':
                self.nested_facts(v)
            elif k == 'array':
                self.array_facts(v)
        return v

    def store(self, loc, val):
        idxs = loc.indices()
        if val.lv is None:
            raise OutOfSubset('storing an interior pointer')
        if val.arr is not None:
            raise OutOfSubset('storing a slice of an embedded array')
        for (q, s, role, key, term) in self.loc_regions(loc):
            if q not in val.lv:
                raise EngineError('store: missing leaf %r of %s (have %s)' % (q, loc.t, list(val.lv)))
            new = nested_store(term, [loc.ref] + idxs, val.lv[q])
            self.heap.set(key, new)

    # ---- pointers
    def ptr_loc(self, v):
        """location a pointer value designates"""
        if v.loc is not None:
            return v.loc
        types = self.cx.types
        et = types.elem(v.t)
        from .values import loc_of_handle
        l = loc_of_handle(v.term)
        if l is not None:
            return Loc(l.fam, l.tk, l.ref, l.steps, et)
        return self.loc_for(et, v.term)

    def loc_for(self, et, ref):
        types = self.cx.types
        k = types.kind(et)
        if k == 'struct':
            return Loc('obj', types.canon(et), ref, [], et)
        if k == 'array':
            return Loc('elems', types.under(types.elem(et)) if types.kind(types.elem(et)) != 'struct' else types.canon(types.elem(et)), ref, [], et)
        return Loc('cell', types.under(et), ref, [], et)

    def elem_loc(self, sl, idx):
        """location of element idx (relative to the slice start) of slice value sl"""
        types = self.cx.types
        et = types.elem(sl.t)
        if sl.arr is not None:
            base = sl.arr
            return Loc(base.fam, base.tk, base.ref, base.steps + [('i', sl.lv[('o',)] + idx)], et)
        return Loc('elems', self.elems_tk(et), sl.lv[('b',)], [('i', sl.lv[('o',)] + idx)], et)

    def elems_tk(self, et):
        types = self.cx.types
        return types.canon(et) if types.kind(et) == 'struct' else types.under(et)

    def array_elem_loc(self, aloc, idx):
        """aloc designates an array value [N]T; location of element idx"""
        types = self.cx.types
        et = types.elem(aloc.t)
        return Loc(aloc.fam, aloc.tk, aloc.ref, aloc.steps + [('i', idx)], et)

    def field_loc(self, sloc, fname, ftype):
        return Loc(sloc.fam, sloc.tk, sloc.ref, sloc.steps + [('f', fname)], ftype)


def nested_store(arr, idxs, v):
    if len(idxs) == 1:
        return z3.Store(arr, idxs[0], v)
    inner = z3.Select(arr, idxs[0])
    return z3.Store(arr, idxs[0], nested_store(inner, idxs[1:], v))


def nested_select(arr, idxs):
    for i in idxs:
        arr = z3.Select(arr, i)
    return arr
