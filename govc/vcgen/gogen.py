"""Translation of contract expressions to executable Go (for replay and bounded search).

All integer arithmetic is done on *big.Int so that the mathematical semantics of the
contracts is kept. Supported: parameters/results of scalar, string, byte-slice, fixed
array and plain struct types; spec functions; old(); bounded quantifiers. Ghost state
is not executable: contracts that mention it are reported as untranslatable."""
from .sym import MATHINT
from .speceval import INT_TYPES


class Untranslatable(Exception):
    pass


PRELUDE = r'''
func vBi(x any) *big.Int {
	switch v := x.(type) {
	case *big.Int:
		return v
	case int:
		return big.NewInt(int64(v))
	case int8:
		return big.NewInt(int64(v))
	case int16:
		return big.NewInt(int64(v))
	case int32:
		return big.NewInt(int64(v))
	case int64:
		return big.NewInt(v)
	case uint:
		return new(big.Int).SetUint64(uint64(v))
	case uint8:
		return big.NewInt(int64(v))
	case uint16:
		return big.NewInt(int64(v))
	case uint32:
		return big.NewInt(int64(v))
	case uint64:
		return new(big.Int).SetUint64(v)
	case uintptr:
		return new(big.Int).SetUint64(uint64(v))
	}
	rv := reflect.ValueOf(x)
	switch rv.Kind() {
	case reflect.Int, reflect.Int8, reflect.Int16, reflect.Int32, reflect.Int64:
		return big.NewInt(rv.Int())
	case reflect.Uint, reflect.Uint8, reflect.Uint16, reflect.Uint32, reflect.Uint64, reflect.Uintptr:
		return new(big.Int).SetUint64(rv.Uint())
	}
	panic(fmt.Sprintf("vBi: %T", x))
}
func vStr(s string) *big.Int { r, _ := new(big.Int).SetString(s, 10); return r }
func vAdd(a, b *big.Int) *big.Int { return new(big.Int).Add(a, b) }
func vSub(a, b *big.Int) *big.Int { return new(big.Int).Sub(a, b) }
func vMul(a, b *big.Int) *big.Int { return new(big.Int).Mul(a, b) }
func vQuo(a, b *big.Int) *big.Int { return new(big.Int).Quo(a, b) }
func vRem(a, b *big.Int) *big.Int { return new(big.Int).Rem(a, b) }
func vMod(a, b *big.Int) *big.Int { return new(big.Int).Mod(a, b) }
func vNeg(a *big.Int) *big.Int { return new(big.Int).Neg(a) }
func vShl(a, b *big.Int) *big.Int { return new(big.Int).Lsh(a, uint(b.Int64())) }
func vShr(a, b *big.Int) *big.Int { return new(big.Int).Rsh(a, uint(b.Int64())) }
func vAnd(a, b *big.Int) *big.Int { return new(big.Int).And(a, b) }
func vOr(a, b *big.Int) *big.Int { return new(big.Int).Or(a, b) }
func vXor(a, b *big.Int) *big.Int { return new(big.Int).Xor(a, b) }
func vAndNot(a, b *big.Int) *big.Int { return new(big.Int).AndNot(a, b) }
func vI(a *big.Int) int { if !a.IsInt64() { panic("index out of int range") }; return int(a.Int64()) }
func vForall(lo, hi *big.Int, f func(*big.Int) bool) bool {
	for i := new(big.Int).Set(lo); i.Cmp(hi) < 0; i = vAdd(i, big.NewInt(1)) {
		if !f(i) {
			return false
		}
	}
	return true
}
func vExists(lo, hi *big.Int, f func(*big.Int) bool) bool {
	for i := new(big.Int).Set(lo); i.Cmp(hi) < 0; i = vAdd(i, big.NewInt(1)) {
		if f(i) {
			return true
		}
	}
	return false
}
func vSeq(x any) string {
	switch v := x.(type) {
	case string:
		return v
	case []byte:
		return string(v)
	}
	rv := reflect.ValueOf(x)
	if rv.Kind() == reflect.Array || rv.Kind() == reflect.Slice {
		b := make([]byte, rv.Len())
		for i := range b {
			b[i] = byte(rv.Index(i).Uint())
		}
		return string(b)
	}
	panic(fmt.Sprintf("vSeq: %T", x))
}
var _ = reflect.ValueOf
var _ = fmt.Sprintf
var _ = big.NewInt
'''


class GoGen:
    def __init__(self, prog, pkg, imports, env_types, local_pkg):
        self.prog = prog
        self.types = prog.types
        self.pkg = pkg              # package of the contract
        self.imports = imports
        self.env = dict(env_types)  # name -> (gocode, typekey)
        self.local_pkg = local_pkg  # package the test lives in (types printed unqualified)
        self.specs = {}             # go func name -> code
        self.used_imports = set()
        self.alias_imports = {}
        self.in_old = False

    # ---- types
    def gotype(self, tk):
        types = self.types
        if tk == MATHINT:
            return '*big.Int'
        d = types.get(tk)
        k = d['k']
        if k == 'basic':
            return d['name']
        if k == 'named':
            name = d['name']
            if '.' not in name:
                return name
            pkg, n = name.rsplit('.', 1)
            if pkg == self.local_pkg:
                return n
            alias = pkg.rsplit('/', 1)[-1]
            self.used_imports.add(pkg)
            return alias + '.' + n
        if k == 'ptr':
            return '*' + self.gotype(d['elem'])
        if k == 'slice':
            return '[]' + self.gotype(d['elem'])
        if k == 'array':
            return '[%d]%s' % (d['len'], self.gotype(d['elem']))
        raise Untranslatable('type ' + tk)

    def is_int(self, tk):
        return tk == MATHINT or (tk is not None and self.types.kind(tk) == 'int')

    def big(self, code, tk):
        if tk == MATHINT:
            return code
        if self.is_int(tk):
            return 'vBi(%s)' % code
        raise Untranslatable('integer expected, got %s' % tk)

    # ---- expressions: returns (code, typekey)
    def tr(self, e):
        k = e[0]
        m = getattr(self, 'tr_' + k, None)
        if m is None:
            raise Untranslatable('expression kind ' + k)
        return m(e)

    def tr_num(self, e):
        n = e[1]
        if -2 ** 62 < n < 2 ** 62:
            return 'big.NewInt(%d)' % n, MATHINT
        return 'vStr("%d")' % n, MATHINT

    def tr_str(self, e):
        return '"%s"' % ''.join('\\x%02x' % b for b in e[1]), 'string'

    def tr_id(self, e):
        n = e[1]
        if n in self.env:
            code, tk = self.env[n]
            if self.in_old and ('old_' + n) in self.env:
                return self.env['old_' + n]
            return code, tk
        if n in ('true', 'false'):
            return n, 'bool'
        if n == 'nil':
            return 'nil', '$nil'
        c = self.prog.consts.get(self.pkg + '.' + n)
        if c is not None and 'int' in c:
            return self.tr_num(('num', int(c['int'])))
        raise Untranslatable('identifier ' + n)

    def tr_sel(self, e):
        x = e[1]
        if x[0] == 'id' and x[1] not in self.env:
            p = self.imports.get(x[1]) or self.prog.aliases.get(x[1])
            if p:
                c = self.prog.consts.get(p + '.' + e[2])
                if c is not None and 'int' in c:
                    return self.tr_num(('num', int(c['int'])))
                raise Untranslatable('package member %s.%s' % (x[1], e[2]))
        code, tk = self.tr(x)
        types = self.types
        t = tk
        if types.kind(t) == 'ptr':
            t = types.elem(t)
        if tk in self.prog.cs.ghosts or (types.get(t).get('name') in self.prog.cs.ghosts and
                                         e[2] in self.prog.cs.ghosts[types.get(t)['name']]):
            raise Untranslatable('ghost field ' + e[2])
        if types.kind(t) != 'struct':
            raise Untranslatable('selection from ' + tk)
        for f in types.fields(t):
            if f['name'] == e[2]:
                return '%s.%s' % (code, e[2]), f['type']
        raise Untranslatable('field ' + e[2])

    def tr_idx(self, e):
        code, tk = self.tr(e[1])
        icode, itk = self.tr(e[2])
        types = self.types
        k = types.kind(tk)
        if k in ('slice', 'array', 'string'):
            et = types.elem(tk) if k != 'string' else 'uint8'
            return '%s[vI(%s)]' % (code, self.big(icode, itk)), et
        raise Untranslatable('index of ' + tk)

    def tr_slice(self, e):
        code, tk = self.tr(e[1])
        lo = 'vI(%s)' % self.big(*self.tr(e[2])) if e[2] else ''
        hi = 'vI(%s)' % self.big(*self.tr(e[3])) if e[3] else ''
        return '%s[%s:%s]' % (code, lo, hi), tk

    def typekey(self, te):
        from .speceval import Ev

        class Shim:
            pass
        sh = Shim()
        sh.prog = self.prog
        sh.types = self.types
        ev = Ev(sh, None, {}, self.pkg, None, self.imports)
        if te[0] == 'type':
            return ev.typekey(te[1])
        from .exprparse import unparse
        return ev.typekey(unparse(te))

    def tr_deref(self, e):
        code, tk = self.tr(e[1])
        if self.types.kind(tk) != 'ptr':
            raise Untranslatable('deref of ' + str(tk))
        return '(*%s)' % code, self.types.elem(tk)

    def tr_assert(self, e):
        code, tk = self.tr(e[1])
        t = self.typekey(e[2])
        return '%s.(%s)' % (code, self.gotype(t)), t

    def tr_un(self, e):
        code, tk = self.tr(e[2])
        if e[1] == '!':
            return '!(%s)' % code, 'bool'
        if e[1] == '-':
            return 'vNeg(%s)' % self.big(code, tk), MATHINT
        if e[1] == '+':
            return self.big(code, tk), MATHINT
        raise Untranslatable('unary ' + e[1])

    def tr_bin(self, e):
        op = e[1]
        a, ta = self.tr(e[2])
        b, tb = self.tr(e[3])
        if op in ('&&', '||'):
            return '(%s %s %s)' % (a, op, b), 'bool'
        if op == '==>':
            return '(!(%s) || (%s))' % (a, b), 'bool'
        if op == '<==>':
            return '((%s) == (%s))' % (a, b), 'bool'
        if op in ('==', '!='):
            if self.is_int(ta) and self.is_int(tb):
                return '(%s.Cmp(%s) %s 0)' % (self.big(a, ta), self.big(b, tb), op), 'bool'
            if ta == '$nil' or tb == '$nil' or ta == tb or ta == 'bool' or self.types.under(ta) == self.types.under(tb):
                return '(%s %s %s)' % (a, op, b), 'bool'
            raise Untranslatable('comparison %s %s' % (ta, tb))
        if op in ('<', '<=', '>', '>='):
            return '(%s.Cmp(%s) %s 0)' % (self.big(a, ta), self.big(b, tb), op), 'bool'
        f = {'+': 'vAdd', '-': 'vSub', '*': 'vMul', '/': 'vQuo', '%': 'vRem', '<<': 'vShl', '>>': 'vShr',
             '&': 'vAnd', '|': 'vOr', '^': 'vXor', '&^': 'vAndNot'}.get(op)
        if f is None:
            raise Untranslatable('operator ' + op)
        return '%s(%s, %s)' % (f, self.big(a, ta), self.big(b, tb)), MATHINT

    def tr_call(self, e):
        f = e[1]
        args = e[2]
        if f[0] == 'id':
            n = f[1]
            if n == 'old':
                saved = self.in_old
                self.in_old = True
                try:
                    return self.tr(args[0])
                finally:
                    self.in_old = saved
            if n in ('len', 'cap'):
                code, tk = self.tr(args[0])
                return 'big.NewInt(int64(%s(%s)))' % (n, code), MATHINT
            if n in ('forall', 'exists'):
                v = args[0][1]
                lo = self.big(*self.tr(args[1]))
                hi = self.big(*self.tr(args[2]))
                saved = self.env.get(v)
                self.env[v] = (v, MATHINT)
                body, tb = self.tr(args[3])
                if saved is None:
                    del self.env[v]
                else:
                    self.env[v] = saved
                return '%s(%s, %s, func(%s *big.Int) bool { return %s })' % (
                    'vForall' if n == 'forall' else 'vExists', lo, hi, v, body), 'bool'
            if n == 'implies':
                a, _ = self.tr(args[0])
                b, _ = self.tr(args[1])
                return '(!(%s) || (%s))' % (a, b), 'bool'
            if n == 'ite':
                c, _ = self.tr(args[0])
                a, ta = self.tr(args[1])
                b, tb = self.tr(args[2])
                if self.is_int(ta) and self.is_int(tb):
                    return 'func() *big.Int { if %s { return %s }; return %s }()' % (c, self.big(a, ta), self.big(b, tb)), MATHINT
                if ta == 'bool':
                    return 'func() bool { if %s { return %s }; return %s }()' % (c, a, b), 'bool'
                gt = self.gotype(ta)
                return 'func() %s { if %s { return %s }; return %s }()' % (gt, c, a, b), ta
            if n == 'is':
                code, tk = self.tr(args[0])
                t = self.typekey(args[1])
                return 'func() bool { _, ok := %s.(%s); return ok }()' % (code, self.gotype(t)), 'bool'
            if n in ('min', 'max'):
                a = self.big(*self.tr(args[0]))
                b = self.big(*self.tr(args[1]))
                cmp = '<=' if n == 'min' else '>='
                return 'func() *big.Int { if %s.Cmp(%s) %s 0 { return %s }; return %s }()' % (a, b, cmp, a, b), MATHINT
            if n in ('mod',):
                return 'vMod(%s, %s)' % (self.big(*self.tr(args[0])), self.big(*self.tr(args[1]))), MATHINT
            if n in ('string', 'seq'):
                code, tk = self.tr(args[0])
                return 'vSeq(%s)' % code, 'string'
            if n in INT_TYPES:
                code, tk = self.tr(args[0])
                return self.big(code, tk), MATHINT
            sf = self.prog.cs.spec(self.pkg, n) or self.prog.cs.spec('stdlib', n)
            if sf is not None:
                return self.call_spec(sf, args)
        if f[0] == 'sel' and f[1][0] == 'id' and f[1][1] not in self.env:
            p = self.imports.get(f[1][1]) or self.prog.aliases.get(f[1][1])
            if p:
                sf = self.prog.cs.spec(p, f[2])
                if sf is not None:
                    return self.call_spec(sf, args)
        raise Untranslatable('call %r' % (f,))

    def call_spec(self, sf, args):
        name = 'spec_%s_%s' % (sf.pkg.rsplit('/', 1)[-1].replace('-', '_'), sf.name)
        targs = [self.tr(a) for a in args]
        if sf.body is None:
            code = self.prog.cs.execs.get((sf.pkg, sf.name))
            if code is None:
                raise Untranslatable('uninterpreted spec function ' + sf.name)
            for a, p in (self.prog.cs.exec_imports.get(sf.pkg) or {}).items():
                self.alias_imports[a] = p
            rt = sf.rtype
            rtk = MATHINT if rt in ('int', 'mathint') else ('bool' if rt == 'bool' else 'string')
            self.specs[name] = ('var %s = %s' % (name, code), rtk)
            cargs = []
            for (pn, pt), (c, tk) in zip(sf.params, targs):
                cargs.append(self.big(c, tk) if pt in ('int', 'mathint') else ('vSeq(%s)' % c if pt == 'seq' else c))
            return '%s(%s)' % (name, ', '.join(cargs)), rtk
        if name not in self.specs:
            self.specs[name] = None   # recursion guard
            sub = GoGen(self.prog, sf.pkg, sf.imports, {}, self.local_pkg)
            sub.specs = self.specs
            sub.used_imports = self.used_imports
            sub.alias_imports = self.alias_imports
            ps = []
            for (pn, pt), (code, tk) in zip(sf.params, targs):
                if pt in ('int', 'mathint'):
                    ptk = MATHINT
                elif pt == 'seq':
                    ptk = 'string'
                else:
                    ptk = tk
                sub.env[pn] = (pn, ptk)
                ps.append('%s %s' % (pn, sub.gotype(ptk)))
            body, tb = sub.tr(sf.body)
            rt = sf.rtype
            if rt in ('int', 'mathint'):
                rtk = MATHINT
                body = sub.big(body, tb)
            elif rt == 'bool':
                rtk = 'bool'
            elif rt == 'seq':
                rtk = 'string'
            else:
                rtk = tb
            self.specs[name] = ('func %s(%s) %s { return %s }' % (name, ', '.join(ps), sub.gotype(rtk), body), rtk)
        ent = self.specs[name]
        if ent is None:
            rt = sf.rtype
            rtk = MATHINT if rt in ('int', 'mathint') else ('bool' if rt == 'bool' else 'string')
        else:
            rtk = ent[1]
        cargs = []
        for (pn, pt), (code, tk) in zip(sf.params, targs):
            if pt in ('int', 'mathint'):
                cargs.append(self.big(code, tk))
            elif pt == 'seq':
                cargs.append('vSeq(%s)' % code)
            else:
                cargs.append(code)
        return '%s(%s)' % (name, ', '.join(cargs)), rtk
