"""Function verification context and control: paths, loops, obligations."""
import sys
import os
import time
import z3
from .sym import I, B, Val, Loc, scalar, sort_of, fresh_name, pathstr, OutOfSubset, EngineError, MATHINT
from . import ops
from . import values as V
from .values import mathint, boolv
from .state import State, Event
from .program import CFG
from .speceval import Ev, SpecError, NilV
from . import contracts as C

sys.setrecursionlimit(20000)


class Result:
    def __init__(self, name, kind, fn, status, seconds=0.0, solver='', pos=None, text='', model=None,
                 query=None, note=''):
        self.name = name
        self.kind = kind
        self.fn = fn
        self.status = status      # discharged | failed | unknown | stale
        self.seconds = seconds
        self.solver = solver
        self.pos = pos
        self.text = text
        self.model = model
        self.query = query        # (assumptions, goal) for recheck
        self.note = note

    def to_json(self):
        return {'name': self.name, 'kind': self.kind, 'fn': self.fn, 'verdict': self.status,
                'seconds': round(self.seconds, 4), 'solver': self.solver, 'pos': self.pos, 'text': self.text,
                'note': self.note}


class PathEnd(Exception):
    pass


class DualSolver:
    """the main incremental solver plus a mirror holding only the quantifier-free assumptions;
    the mirror answers the (pruning-only) feasibility questions quickly"""

    def __init__(self, opts):
        self.main = z3.Solver()
        self.main.set('timeout', opts.timeout_ms)
        self.main.set('random_seed', opts.seed)
        self.qf = z3.Solver()
        self.qf.set('timeout', opts.branch_ms)
        self.qf.set('random_seed', opts.seed)
        self._branch_ms = opts.branch_ms
        # third mirror: facts over integer constants only (allocation order of references,
        # lengths): answers "are these two references provably different" in microseconds
        self.ord = z3.Solver()
        self.ord.set('timeout', 200)
        self._model = None
        self._pending = []
        self._verified = 0
        self._marks = []

    def add(self, f):
        from .solve import has_quantifier
        self.main.add(f)
        if pure_int(f):
            self.ord.add(f)
        elif z3.is_app(f) and f.decl().kind() == z3.Z3_OP_AND:
            for x in f.children():
                if pure_int(x):
                    self.ord.add(x)
        if not has_quantifier(f):
            self.qf.add(f)
            self._pending.append(f)
        elif z3.is_app(f) and f.decl().kind() == z3.Z3_OP_AND:
            # the quantifier-free conjuncts of a mixed conjunction still prune branches
            todo = list(f.children())
            while todo:
                x = todo.pop()
                if not has_quantifier(x):
                    self.qf.add(x)
                    self._pending.append(x)
                elif z3.is_app(x) and x.decl().kind() == z3.Z3_OP_AND:
                    todo.extend(x.children())

    def push(self):
        self.main.push()
        self.qf.push()
        self.ord.push()
        self._marks.append(len(self._pending))

    def pop(self):
        self.main.pop()
        self.qf.pop()
        self.ord.pop()
        n = self._marks.pop() if self._marks else 0
        del self._pending[n:]
        self._verified = min(self._verified, n)

    def provably_different(self, a, b):
        if a.eq(b):
            return False
        self.ord.push()
        self.ord.add(a == b)
        r = self.ord.check()
        self.ord.pop()
        return r == z3.unsat

    def set(self, k, v):
        self.main.set(k, v)

    def check(self):
        return self.main.check()

    def feasible(self):
        """pruning only: may the quantifier-free assumptions hold together? The last model found is
        kept: if it also satisfies everything added since, no solver call is needed"""
        m = getattr(self, '_model', None)
        if m is not None:
            ok = True
            for f in self._pending[self._verified:]:
                try:
                    if not z3.is_true(m.eval(f, model_completion=True)):
                        ok = False
                        break
                except z3.Z3Exception:
                    ok = False
                    break
                self._verified += 1
            if ok:
                return True
        # the incremental solver (push/pop) is weak on large contexts: give it a short try, then
        # ask a fresh non-incremental solver, which decides the same assertions in milliseconds
        fresh = None
        if getattr(self, '_skip_incremental', 0) > 0:
            self._skip_incremental -= 1
            r = z3.unknown
        else:
            self.qf.set('timeout', 150)
            r = self.qf.check()
            self.qf.set('timeout', self._branch_ms)
            if r == z3.unknown:
                self._slow_incremental = getattr(self, '_slow_incremental', 0) + 1
                if self._slow_incremental >= 3:
                    self._skip_incremental = 8    # it keeps giving up: go straight to the fresh solver for a while
                    self._slow_incremental = 0
            else:
                self._slow_incremental = 0
        if r == z3.unknown:
            fresh = z3.Solver()
            fresh.set('timeout', self._branch_ms)
            fresh.add(self.qf.assertions())
            r = fresh.check()
        if r == z3.sat:
            try:
                self._model = (fresh or self.qf).model()
                self._pending = []
                self._verified = 0
                self._marks = [0] * len(self._marks)
            except z3.Z3Exception:
                self._model = None
        return r != z3.unsat

    def model(self):
        return self.main.model()

    def reason_unknown(self):
        return self.main.reason_unknown()


def pure_int(f, limit=60):
    """formula built from integer constants, numerals, arithmetic and comparisons only"""
    todo = [f]
    n = 0
    while todo:
        x = todo.pop()
        n += 1
        if n > limit:
            return False
        if z3.is_quantifier(x) or not z3.is_app(x):
            return False
        k = x.decl().kind()
        if x.num_args() == 0:
            if k == z3.Z3_OP_UNINTERPRETED and not (z3.is_int(x) or z3.is_bool(x)):
                return False
            continue
        if k in (z3.Z3_OP_AND, z3.Z3_OP_OR, z3.Z3_OP_NOT, z3.Z3_OP_IMPLIES, z3.Z3_OP_EQ, z3.Z3_OP_DISTINCT, z3.Z3_OP_LE, z3.Z3_OP_LT,
                 z3.Z3_OP_GE, z3.Z3_OP_GT, z3.Z3_OP_ADD, z3.Z3_OP_SUB, z3.Z3_OP_UMINUS, z3.Z3_OP_MUL, z3.Z3_OP_ITE):
            todo.extend(x.children())
            continue
        return False
    return True


class Frame:
    """activation of an SSA function (the function under contract or an inlined callee)"""

    def __init__(self, fnkey, fn, cfg, on_return, depth):
        self.fnkey = fnkey
        self.fn = fn
        self.cfg = cfg
        self.on_return = on_return
        self.depth = depth
        self.names = {}


class Opts:
    def __init__(self, **kw):
        self.timeout_ms = kw.get('timeout_ms', 3000)
        self.branch_ms = kw.get('branch_ms', 1000)
        self.max_paths = kw.get('max_paths', 4000)
        self.merge = kw.get('merge', True)
        self.seed = kw.get('seed', 0)
        self.verbose = kw.get('verbose', False)


class FnCtx:
    def __init__(self, prog, fnkey, opts=None):
        from .instrs import Instrs
        from .recspec import RecSpecs
        self.prog = prog
        self.types = prog.types
        self.fnkey = fnkey
        self.fn = prog.funcs[fnkey.split('#')[0]]
        self.cfg = CFG(self.fn)
        self.contract = prog.cs.funcs.get(fnkey) or C.FuncContract(fnkey, fnkey.split('::')[0], '', 0)
        self.opts = opts or Opts()
        if self.contract.opts.get('merge') == 'off' or self.contract.opts.get('timeout-ms'):
            # per-function settings from the contract: keep the arms of conditionals apart
            # (`opt merge off`), a longer first-stage solver budget (`opt timeout-ms N`)
            o = Opts(**self.opts.__dict__)
            if self.contract.opts.get('merge') == 'off':
                o.merge = False
            if self.contract.opts.get('timeout-ms'):
                o.timeout_ms = int(self.contract.opts['timeout-ms'])
            self.opts = o
        self.solver = DualSolver(self.opts)
        self.results = []
        self.assumed_used = set()
        self.opaque_calls = set()
        self.erased = set()
        self.inlined = set()
        self.npaths = 0
        self.nforks = 0
        self.nmerges = 0
        self.notes = []
        self.instrs = Instrs(self)
        self.recspecs = RecSpecs(self)
        self.cfgs = {fnkey: self.cfg}
        self.panic_ord = {}
        self.entry = None
        self.dropped_auto = set()
        self.returns = 0
        self.infeasible_ends = 0
        self.covered = set()
        self.failed_names = set()
        self.callsites_seen = set()
        self.ro_sources = set()
        self.ro_failed = False
        self.trusted_clauses = set()
        self.call_patterns = set(self.scan_call_patterns())
        self.rel = fnkey.split('::', 1)[1]
        self.pkg = fnkey.split('::', 1)[0]
        self.short = self.pkg.rsplit('/', 1)[-1] + '.' + self.rel

    def scan_call_patterns(self):
        """identifiers used as ncalls(...) arguments anywhere in the contract"""
        out = set()

        def walk(e):
            if isinstance(e, (tuple, list)):
                if len(e) >= 3 and e[0] == 'call' and e[1] in (('id', 'ncalls'), ('id', 'lastseq')) and e[2] and e[2][0][0] in ('id', 'str'):
                    pat = e[2][0][1]
                    out.add(pat.decode() if isinstance(pat, bytes) else pat)
                for x in e:
                    walk(x)
        c = self.contract
        for cl in list(c.requires) + list(c.ensures) + [x for (_, x) in c.calls]:
            walk(cl.expr)
        for ls in c.loops.values():
            for cl in ls.invariants:
                walk(cl.expr)
        return out

    def solver_add(self, f):
        self.solver.add(f)

    def cfg_of(self, fnkey):
        if fnkey not in self.cfgs:
            self.cfgs[fnkey] = CFG(self.prog.funcs[fnkey])
        return self.cfgs[fnkey]

    # ------------------------------------------------------------ obligations
    def prove(self, st, goal, name, kind, pos=None, text='', assume_after=True):
        t0 = time.time()
        if self.contract.opts.get('only') == 'readonly' and kind in ('call-requires', 'panic'):
            # a provenance-only sweep contract (`opt only readonly`): preconditions of callees and
            # panic guards are taken for granted (the function is may-panic and has its own or no
            # functional contract elsewhere); the only obligation is the read-only one
            st.assume(goal)
            self.notes.append('provenance-only contract: callee preconditions and panic guards assumed')
            return True
        g = z3.simplify(goal)
        import os as _os
        if _os.environ.get('VCGEN_DUMP') and _os.environ['VCGEN_DUMP'] in name:
            print('DUMP', name)
            print('  GOAL:', goal)
        if z3.is_true(g):
            self.results.append(Result(name, kind, self.fnkey, 'discharged', 0.0, 'simplify', pos, text))
            return True
        if name in self.failed_names:
            # already not discharged on another path: do not spend solver time again
            if assume_after:
                st.assume(goal)
            return False
        from .solve import has_quantifier
        if not has_quantifier(goal):
            # first with the quantifier-free assumptions only: most goals need nothing else, and
            # the quantified context can make the solver give up on an easy goal
            q = self.solver.qf
            q.push()
            q.add(z3.Not(goal))
            rq = q.check()
            q.pop()
            if rq == z3.unsat:
                self.results.append(Result(name, kind, self.fnkey, 'discharged', time.time() - t0,
                                           'z3-%s(incremental, quantifier-free context)' % z3.get_version_string(), pos, text))
                if assume_after:
                    st.assume(goal)
                return True
        self.solver.push()
        self.solver.add(z3.Not(goal))
        r = self.solver.check()
        dt = time.time() - t0
        ok = (r == z3.unsat)
        solver_name = 'z3-%s(incremental)' % z3.get_version_string()
        if r == z3.unknown and self.valid_standalone(goal):
            # hard context, easy goal: valid without any assumption
            ok = True
            r = z3.unsat
            solver_name = 'z3-%s(standalone)' % z3.get_version_string()
            dt = time.time() - t0
        if r == z3.unknown:
            # skolemise a quantified goal and instantiate the quantified assumptions by hand at its
            # skolem constants and at the map keys seen on the path (the solver's own
            # instantiation is seed dependent)
            if self.retry_instantiated(st, goal):
                ok = True
                r = z3.unsat
                solver_name = 'z3-%s(incremental, instantiated at skolems)' % z3.get_version_string()
                dt = time.time() - t0
        if ok:
            self.results.append(Result(name, kind, self.fnkey, 'discharged', dt, solver_name, pos, text))
        else:
            model = None
            if r == z3.sat:
                try:
                    model = self.solver.model()
                except z3.Z3Exception:
                    model = None
            status = 'failed' if r == z3.sat else 'unknown'
            res = Result(name, kind, self.fnkey, status, dt, 'z3(incremental)', pos, text, model,
                         (list(st.assumptions), goal), note=str(self.solver.reason_unknown()) if r != z3.sat else '')
            res.inputs = self.model_inputs(model) if model is not None else None
            res.trace = list(st.trace)
            self.results.append(res)
            self.failed_names.add(name)
        self.solver.pop()
        if assume_after:
            st.assume(goal)
        return ok

    def model_inputs(self, model):
        """concrete values of the function inputs in a model (for replay)"""
        out = {}
        try:
            for name, v in self.input_vals.items():
                out[name] = self.concretize(model, v)
        except Exception as ex:  # model extraction is best effort
            out['$error'] = str(ex)
        return out

    def concretize(self, model, v, st=None):
        types = self.types
        k = types.kind(v.t)

        def ev(t):
            r = model.eval(t, model_completion=True)
            if z3.is_int_value(r):
                return r.as_long()
            if z3.is_true(r):
                return True
            if z3.is_false(r):
                return False
            return str(r)
        if k in ('int', 'bool', 'ptr', 'map', 'func', 'chan', 'float'):
            d = {'t': v.t, 'v': ev(v.term)}
            return d
        if k == 'string':
            n = ev(v.lv[('n',)])
            n2 = n if isinstance(n, int) and 0 <= n <= 256 else 0
            return {'t': v.t, 'len': n, 'bytes': [ev(z3.Select(v.lv[('s',)], i)) for i in range(n2)]}
        if k == 'slice':
            n = ev(v.lv[('l',)])
            d = {'t': v.t, 'len': n, 'cap': ev(v.lv[('c',)]), 'base': ev(v.lv[('b',)]), 'off': ev(v.lv[('o',)])}
            et = types.elem(v.t)
            if types.kind(et) in ('int', 'bool') and isinstance(n, int) and 0 <= n <= 256:
                h0 = self.entry_state
                row = []
                for i in range(n):
                    e = h0.load(h0.elem_loc(v, z3.IntVal(i)), facts=False)
                    row.append(ev(e.term))
                d['elems'] = row
            return d
        if k == 'array':
            n = types.desc(v.t)['len']
            et = types.elem(v.t)
            if types.kind(et) in ('int', 'bool') and n <= 4096:
                return {'t': v.t, 'elems': [ev(z3.Select(v.lv[('[]',)], i)) for i in range(n)]}
            return {'t': v.t}
        if k == 'struct':
            return {'t': v.t, 'fields': {f['name']: self.concretize(model, v.sub(('.' + f['name'],), f['type']))
                                          for f in types.fields(v.t)}}
        if k == 'iface':
            return {'t': v.t, 'tag': ev(v.lv[('t',)]), 'payload': ev(v.lv[('p',)])}
        return {'t': v.t}

    def stale(self, name, why):
        self.results.append(Result(name, 'stale', self.fnkey, 'stale', note=why))

    # ------------------------------------------------------------ entry
    def evaluator(self, st, fr, old=None, extra=None):
        env = dict(self.base_env)
        if extra:
            env.update(extra)

        def resolver(n, ev):
            return self.resolve_name(getattr(ev, 'name_st', None) or ev.st, fr, n)
        e = Ev(self, st, env, self.contract.pkg, old, self.contract.imports, resolver)
        e.last_resort = lambda n: self.resolve_undefined(getattr(e, 'name_st', None) or e.st, fr, n)
        return e

    def resolve_name(self, st, fr, n):
        """source identifier -> current value, through DebugRef name tracking"""
        ent = st.names.get(n) if fr is self.top else None
        if ent is not None and ent[1] not in st.regs:
            ent = None
        if ent is None:
            return None
        kind, reg = ent
        v = st.regs[reg]
        if kind == 'addr':
            return st.load(st.ptr_loc(v))
        return v

    def resolve_undefined(self, st, fr, n):
        """a variable of the function under contract that has no value on this path (declared in
        a branch not taken, or held in different registers on merged paths): an arbitrary value of
        its type, so that an obligation mentioning it has to hold whatever it is. Asked only after
        every other meaning of the identifier (constant, package variable, type) has failed."""
        t = self.ident_types().get(n) if fr is self.top else None
        if t is None or n not in getattr(st, 'names_seen', ()):
            return None     # not a local, or one that no path to here has declared yet
        memo = self.__dict__.setdefault('_undef_locals', {})
        if n not in memo:
            memo[n] = V.fresh_val(self.types, t, 'undef_' + n)
        return memo[n]

    def ident_types(self):
        if not hasattr(self, '_ident_types'):
            seen = {}
            for blk in self.fn['blocks']:
                for ins in blk['instrs']:
                    if ins['op'] != 'DebugRef' or not ins.get('ident'):
                        continue
                    if ins['x'].get('k') not in ('reg', 'param', 'freevar'):
                        continue     # a package-level variable or a constant, not a local
                    t = ins['x'].get('type')
                    if t is None:
                        continue
                    if ins.get('addr'):
                        t = self.types.elem(t)
                    seen.setdefault(ins['ident'], set()).add(self.types.norm(t))
            self._ident_types = {n: next(iter(ts)) for n, ts in seen.items() if len(ts) == 1}
        return self._ident_types

    def const_cell_ids(self):
        if not hasattr(self, '_const_ids'):
            self._const_ids = set()
            self._const_keep = []
        return self._const_ids

    def const_allocs(self):
        """Alloc registers of the function under contract holding a variable that is written once
        (its initialisation) and only read afterwards, here and in every closure that captures it"""
        if hasattr(self, '_const_allocs'):
            return self._const_allocs
        self.const_cell_ids()
        fn = self.fn
        allocs = {}
        uses = {}
        for blk in fn['blocks']:
            for ins in blk['instrs']:
                if ins['op'] == 'Alloc':
                    allocs[ins['name']] = ins
        bad = set()
        nstores = {}
        captured = {}

        def refs(v, out):
            if isinstance(v, dict):
                if v.get('k') == 'reg' and v.get('name') in allocs:
                    out.append(v['name'])
                for vv in v.values():
                    refs(vv, out)
            elif isinstance(v, list):
                for vv in v:
                    refs(vv, out)
        for blk in fn['blocks']:
            for ins in blk['instrs']:
                op = ins['op']
                if op == 'Store':
                    a = ins['addr']
                    if a.get('k') == 'reg' and a.get('name') in allocs:
                        nstores[a['name']] = nstores.get(a['name'], 0) + 1
                    o = []
                    refs(ins.get('val'), o)
                    bad.update(o)       # the address itself is stored somewhere
                elif op == 'UnOp' and ins.get('uop') == '*':
                    pass
                elif op == 'DebugRef':
                    pass
                elif op == 'MakeClosure':
                    for j, bnd in enumerate(ins.get('bindings') or []):
                        if bnd.get('k') == 'reg' and bnd.get('name') in allocs:
                            captured.setdefault(bnd['name'], []).append((ins['fn']['name'], j))
                else:
                    o = []
                    for k2, v2 in ins.items():
                        if k2 in ('name', 'type', 'pos', 'op'):
                            continue
                        refs(v2, o)
                    bad.update(o)       # any other use (passed to a call, field address, ...)
        out = set()
        for a, caps in captured.items():
            if a in bad or nstores.get(a, 0) > 1:
                continue
            ok = True
            for (cfn, j) in caps:
                cf = self.prog.funcs.get(cfn)
                if cf is None:
                    ok = False
                    break
                fvs = cf.get('freevars') or []
                if j >= len(fvs):
                    ok = False
                    break
                fvname = fvs[j]['name']
                for blk in cf['blocks']:
                    for ins in blk['instrs']:
                        if ins['op'] == 'UnOp' and ins.get('uop') == '*':
                            continue
                        if ins['op'] == 'DebugRef':
                            continue
                        txt = []

                        def fv(v):
                            if isinstance(v, dict):
                                if v.get('k') == 'freevar' and v.get('name') == fvname:
                                    txt.append(1)
                                for vv in v.values():
                                    fv(vv)
                            elif isinstance(v, list):
                                for vv in v:
                                    fv(vv)
                        for k2, v2 in ins.items():
                            if k2 in ('name', 'type', 'pos', 'op'):
                                continue
                            fv(v2)
                        if txt:
                            ok = False
                            break
                    if not ok:
                        break
                if not ok:
                    break
            if ok:
                out.add(a)
        self._const_allocs = out
        if out:
            self.notes.append('captured variables never reassigned (cells keep their value across calls): %s' % sorted(allocs[a].get('comment') or a for a in out))
        return out

    def resolve_addr(self, st, n):
        """location of a source variable that lives in memory (its address is taken)"""
        ent = st.names.get(n)
        if ent is None or ent[0] != 'addr' or ent[1] not in st.regs:
            return None
        return st.ptr_loc(st.regs[ent[1]])

    def run(self):
        t0 = time.time()
        fn = self.fn
        st = State(self)
        types = self.types
        self.base_env = {}
        self.input_vals = {}
        fr = Frame(self.fnkey, fn, self.cfg, None, 0)
        self.top = fr
        st.assume(st.alloc0 >= 0)
        for p in (fn.get('params') or []):
            v = V.named_val(types, p['type'], 'in_' + p['name'])
            st.type_facts(v, known_old=True)
            st.regs[p['name']] = v
            self.base_env[p['name']] = v
            self.input_vals[p['name']] = v
        for k, p in enumerate(fn.get('params') or []):
            self.base_env.setdefault('arg%d' % k, st.regs[p['name']])
        for p in (fn.get('freevars') or []):
            v = V.named_val(types, p['type'], 'fv_' + p['name'])
            st.type_facts(v, known_old=True)
            if types.kind(p['type']) == 'ptr':
                st.assume(v.term != 0)   # a captured variable's cell always exists
            st.regs[p['name']] = v
            # captured variables are pointers to cells: contracts name the variable itself
            self.base_env[p['name']] = (lambda v=v, st0=None: v)
            self.input_vals['fv_' + p['name']] = v
        self.freevar_names = [p['name'] for p in (fn.get('freevars') or [])]
        self.entry_state = st.copy()
        self.entry_state.cx = self
        # preconditions
        self._cur_state = st
        self.patch_freevars(st)
        ev = self.evaluator(st, fr)
        for c in self.contract.requires:
            try:
                f = ev.bool(c.expr)
                st.assume(f)
                self.bind_constant_params(st, f)
                for q in top_foralls(f):
                    # a precondition quantified over map keys: instantiated at every key term
                    # that appears later on (and at those already seen)
                    if q.num_vars() == 1 and q.var_sort(0) == I and q.var_name(0).startswith('k@') or \
                            (q.num_vars() == 1 and q.var_sort(0) == I and '@' in q.var_name(0) and 'forallkeys' in c.text):
                        st.keyfacts.append(q)
                        for t in list(st.keyterms):
                            st.assume(z3.substitute_vars(q.body(), t))
            except SpecError as ex:
                self.stale('%s.requires[%s]' % (self.short, c.label or c.line), str(ex))
        for (icon, ienv) in self.implemented(st):
            iev = Ev(self, st, ienv, icon.pkg, None, icon.imports)
            for c in icon.requires:
                try:
                    st.assume(iev.bool(c.expr))
                except SpecError as ex:
                    self.stale('%s.implements[%s].requires[%s]' % (self.short, icon.key.split('::')[1], c.label or c.line), str(ex))
        for c in self.prog.cs.pkg_invs.get(self.contract.pkg, []):
            try:
                st.assume(ev.bool(c.expr))
                self.notes.append('package invariant assumed: ' + c.text)
            except SpecError as ex:
                self.stale('%s.pkg-invariant[%s]' % (self.short, c.line), str(ex))
        # vacuity: precondition satisfiable
        self.solver.push()
        r = self.solver.check()
        self.solver.pop()
        self.pre_sat = str(r)
        if r == z3.unsat:
            self.results.append(Result(self.short + '.vacuity', 'vacuity', self.fnkey, 'failed',
                                       note='precondition unsatisfiable'))
            return
        self.entry_state = st.copy()
        try:
            self.run_block(st, fr, 0, None)
        except OutOfSubset as ex:
            if os.environ.get('VCGEN_TRACE_PATHS'):
                import traceback
                traceback.print_exc()
            self.results.append(Result(self.short + '.subset', 'subset', self.fnkey, 'unknown', note='out of subset: %s' % ex))
        self.seconds = time.time() - t0
        if self.ro_sources and not self.ro_failed:
            for src in sorted(self.ro_sources):
                self.results.append(Result('%s.readonly[%s]' % (self.short, src), 'readonly', self.fnkey, 'discharged',
                                           solver='provenance on go/ssa registers',
                                           text='nothing is written through a value obtained from %s' % src))
        for (pat, c) in self.contract.calls:
            if (pat, c.label) not in self.callsites_seen:
                self.stale('%s.callsite[%s].requires[%s]' % (self.short, pat, c.label), 'no call matching the pattern was reached')
        if self.returns == 0 and not any(r.kind == 'subset' for r in self.results):
            self.notes.append('no path reaches a return')

    def panic_allowed(self, st, fr):
        """the contract's panic condition (entry state); evaluated once, the facts its evaluation
        records are assumed in every state that uses it"""
        c = getattr(self, '_panic_allowed', None)
        if c is None:
            sink = State.__new__(State)
            sink.__dict__.update(self.entry_state.__dict__)
            facts = []

            class _Sink:
                def assume(self2, f):
                    facts.append(f)
            ev = self.evaluator(self.entry_state.with_sink(_Sink()), self.top)
            ev.resolver = None
            allowed = z3.Or([ev.bool(pc.expr) for pc in self.contract.panics_if])
            c = self._panic_allowed = (allowed, facts)
        for f in c[1]:
            st.assume(f)
        return c[0]

    def bind_constant_params(self, st, f):
        """a precondition conjunct `param == constant` (the selector of a behaviour, e.g. the opcode):
        the parameter's register becomes that constant, so branches on it fold without the solver"""
        todo = [f]
        while todo:
            x = todo.pop()
            if z3.is_app(x) and x.decl().kind() == z3.Z3_OP_AND:
                todo.extend(x.children())
                continue
            if z3.is_eq(x):
                a, b = x.arg(0), x.arg(1)
                if z3.is_int_value(a):
                    a, b = b, a
                if z3.is_int_value(b) and z3.is_const(a) and a.decl().kind() == z3.Z3_OP_UNINTERPRETED:
                    for p in (self.fn.get('params') or []):
                        v = st.regs.get(p['name'])
                        if v is not None and v.lv is not None and list(v.lv.keys()) == [()] and v.lv[()].eq(a):
                            st.regs[p['name']] = scalar(v.t, b)
                            self.base_env[p['name']] = st.regs[p['name']]

    def patch_freevars(self, st):
        """in contracts of closures, a captured variable's name denotes its current value"""
        for n in getattr(self, 'freevar_names', []):
            reg = st.regs[n]
            if self.types.kind(reg.t) == 'ptr':
                self.base_env[n] = (lambda reg=reg: self._cur_state.load(self._cur_state.ptr_loc(reg)))
            else:
                self.base_env[n] = reg

    # ------------------------------------------------------------ control
    def run_block(self, st, fr, b, pred):
        self._cur_state = st
        cfg = fr.cfg
        blk = cfg.blocks[b]
        st.trace.append(b)
        if fr is self.top:
            st.toptrace.append(b)
        if len(st.trace) > 3000:
            raise OutOfSubset('path too long')
        # leaving loops
        for h in list(st.loops.keys()):
            if h[0] == id(fr) and b not in cfg.loops[h[1]]:
                if fr is self.top and not cfg.exitonly[b]:
                    spec = self.contract.loops.get(cfg.ordinal.get(h[1]))
                    if spec is not None and spec.exits:
                        ev = self.evaluator(st, fr, old=self.entry_state.with_sink(st))
                        for c in spec.exits:
                            name = '%s.loop%d.exit[%s]' % (self.short, cfg.ordinal[h[1]], c.label)
                            try:
                                g = self.inv_formula(st, fr, ev, c, h[1])
                            except SpecError as ex:
                                self.stale(name, str(ex))
                                continue
                            self.prove(st, g, name, 'loop-exit', None, c.text, assume_after=True)
                del st.loops[h]
        instrs = blk['instrs']
        nphi = 0
        while nphi < len(instrs) and instrs[nphi]['op'] in ('Phi',):
            nphi += 1
        # phis read their operands simultaneously
        if pred is not None and nphi:
            pi = cfg.preds[b].index(pred)
            newv = {}
            for ins in instrs[:nphi]:
                newv[ins['name']] = self.instrs.operand(st, fr, ins['edges'][pi], ins['type'])
            for ins in instrs[:nphi]:
                st.regs[ins['name']] = newv[ins['name']]
                if st.ro:
                    def ro_of(e):
                        return st.ro.get((id(fr), e.get('name'))) if isinstance(e, dict) and e.get('k') in ('reg', 'param', 'freevar') else None
                    if b in cfg.loops:
                        # a loop-carried variable: derived from a read-only result only if every
                        # incoming edge says so (a variable upgraded to a writable copy inside the
                        # loop is not flagged: no alarm on `if !rw { c = GetRWCache() }` patterns)
                        srcs = [ro_of(e) for e in ins['edges']]
                        src = srcs[0] if all(srcs) else None
                    else:
                        src = ro_of(ins['edges'][pi])
                    if src:
                        st.ro[(id(fr), ins['name'])] = src
                    else:
                        st.ro.pop((id(fr), ins['name']), None)
                if ins.get('comment') and fr is self.top:
                    st.names[ins['comment']] = ('reg', ins['name'])
                    st.names_seen.add(ins['comment'])
        # join point of an enclosing fork: hand the state to the collector
        if st.stops and st.stops[-1][0] == (id(fr), b):
            key, coll = st.stops[-1]
            st.stops = st.stops[:-1]
            coll.append(st)
            return
        self.enter_block(st, fr, b, pred, nphi)

    def enter_block(self, st, fr, b, pred, nphi=None):
        self._cur_state = st
        cfg = fr.cfg
        instrs = cfg.blocks[b]['instrs']
        if nphi is None:
            nphi = 0
            while nphi < len(instrs) and instrs[nphi]['op'] in ('Phi',):
                nphi += 1
        if b in cfg.loops:
            if not self.loop_header(st, fr, b, pred, instrs[:nphi]):
                return
        self.exec_from(st, fr, b, nphi)

    def exec_from(self, st, fr, b, i):
        self._cur_state = st
        blk = fr.cfg.blocks[b]
        instrs = blk['instrs']
        n = len(instrs)
        while i < n:
            ins = instrs[i]
            op = ins['op']
            if op == 'If':
                c = self.instrs.operand(st, fr, ins['cond'], 'bool').term
                s0, s1 = fr.cfg.succs[b]
                self.fork(st, fr, b, [(c, s0), (z3.Not(c), s1)])
                return
            if op == 'Jump':
                self.run_block(st, fr, fr.cfg.succs[b][0], b)
                return
            if op == 'Return':
                vals = [self.instrs.operand(st, fr, r, None) for r in ins['results']]
                self.do_return(st, fr, vals, ins)
                return
            if op == 'Panic':
                self.instrs.explicit_panic(st, fr, ins)
                return
            # calls that may be inlined get a continuation
            cont = self.instrs.step(st, fr, b, i, ins)
            if cont == 'stop':
                return
            if cont == 'forked':
                return
            i += 1
        raise EngineError('block without terminator')

    def fork(self, st, fr, b, alts):
        """alts: list of (condition, successor block)"""
        from .merge import merge_states
        self.nforks += 1
        cfg = fr.cfg
        live = []
        for c, s in alts:
            cs = z3.simplify(c)
            if z3.is_false(cs):
                continue
            live.append((c, cs, s))
        J = cfg.ipdom.get(b) if self.opts.merge else None
        if J is not None and J in cfg.loops and b in cfg.loops[J]:
            J = None   # the "join" is a loop header reached by back edges
        if len(live) < 2:
            J = None
        coll = [] if J is not None else None
        base_len = len(st.assumptions)
        base_pc = len(st.pathconds)
        for k, (c, cs, s) in enumerate(live):
            if self.npaths > self.opts.max_paths:
                raise OutOfSubset('path limit exceeded')
            self.solver.push()
            child = st.copy() if (k < len(live) - 1 or J is not None) else st
            child.assume(c)
            child.pathconds.append(c)
            if J is not None:
                child.stops = child.stops + [((id(fr), J), coll)]
            feasible = True
            if not z3.is_true(cs):
                feasible = self.solver.feasible()
            try:
                if feasible:
                    self.run_block(child, fr, s, b)
            finally:
                self.solver.pop()
        if J is None or not coll:
            return
        def at_join(m):
            # an enclosing fork may wait at the same block (short-circuit conditions): its collector
            # takes the state; the phis of the join were assigned when the arms arrived
            if os.environ.get('VCGEN_HANDOVER', '1') == '1' and m.stops and m.stops[-1][0] == (id(fr), J):
                key, outer = m.stops[-1]
                m.stops = m.stops[:-1]
                outer.append(m)
                return
            self.enter_block(m, fr, J, None)
        self.continue_from_join(st, coll, base_len, base_pc, at_join,
                                live=cfg.uses_from(J) if fr is self.top else None)

    def continue_from_join(self, parent, coll, base_len, base_pc, k, live=None):
        """continue once from the merged state, or separately when the arms cannot be merged"""
        from .merge import merge_states
        merged = None
        if len(coll) > 1:
            try:
                merged = merge_states(self, parent, coll, base_len, base_pc, live)
            except OutOfSubset:
                merged = None
        if merged is not None:
            self.nmerges += 1
            self.solver.push()
            try:
                # the merged state's new assumption was recorded by merge_states through assume()
                k(merged)
            finally:
                self.solver.pop()
            return
        for s in coll:
            self.solver.push()
            try:
                for a in s.assumptions[base_len:]:
                    self.solver.add(a)
                k(s)
            finally:
                self.solver.pop()

    def fork_cond(self, st, alts, k, cont):
        """alternatives on conditions: k(child, index) turns the child into the post-state of
        alternative index; the results are joined and cont(state) continues once"""
        live = [(i, c) for i, c in enumerate(alts) if not z3.is_false(z3.simplify(c))]
        base_len = len(st.assumptions)
        base_pc = len(st.pathconds)
        coll = []
        for n, (i, c) in enumerate(live):
            self.solver.push()
            child = st.copy()
            child.assume(c)
            child.pathconds.append(c)
            ok = self.solver.feasible() if not z3.is_true(z3.simplify(c)) else True
            try:
                if ok:
                    k(child, i)
                    coll.append(child)
            finally:
                self.solver.pop()
        if not coll:
            return
        if not self.opts.merge:
            for s in coll:
                self.solver.push()
                try:
                    for a in s.assumptions[base_len:]:
                        self.solver.add(a)
                    cont(s)
                finally:
                    self.solver.pop()
            return
        self.continue_from_join(st, coll, base_len, base_pc, cont)

    # ------------------------------------------------------------ return
    def do_return(self, st, fr, vals, ins):
        if fr.on_return is not None:
            # joins of this (inlined) frame that the returning arm never reached
            st.stops = [x for x in st.stops if x[0][0] != id(fr)]
            fr.on_return(st, vals)
            return
        if not self.path_feasible():
            self.infeasible_ends += 1
            return
        self.mark_covered(st)
        self.npaths += 1
        self.returns += 1
        if os.environ.get('VCGEN_TRACE_PATHS'):
            print('PATH-END return', st.trace, file=sys.stderr)
        self.check_post(st, fr, vals, ins)

    def result_env(self, vals):
        fn = self.fn
        env = {}
        rn = fn.get('resultnames') or []
        for i, v in enumerate(vals):
            env['result%d' % i] = v
            if i < len(rn) and rn[i] and rn[i] != '_':
                env.setdefault(rn[i], v)
        if len(vals) == 1:
            env['result'] = vals[0]
        elif vals:
            env['result'] = vals[0]
        if vals and self.types.get(vals[-1].t).get('name') == 'error' and 'err' not in self.base_env:
            env['err'] = vals[-1]
        return env

    def check_post(self, st, fr, vals, ins):
        env = self.result_env(vals)
        ev = self.evaluator(st, fr, old=self.entry_state.with_sink(st), extra=env)
        ev.resolver = None
        for c in self.contract.ensures:
            name = '%s.ensures[%s]' % (self.short, c.label)
            if c.label.endswith('!'):
                # postcondition stated but not proved here: an assumption, listed in the evidence
                self.trusted_clauses.add('%s (unproved postcondition): %s' % (name, c.text))
                continue
            try:
                g = ev.bool(c.expr)
            except SpecError as ex:
                self.stale(name, str(ex))
                continue
            self.prove(st, g, name, 'ensures', ins.get('pos'), c.text, assume_after=False)
        for (icon, ienv) in self.implemented(self.entry_state):
            ienv = dict(ienv)
            for k2, v2 in env.items():
                if k2.startswith('result') or k2 == 'err':
                    ienv[k2] = v2
            iev = Ev(self, st, ienv, icon.pkg, self.entry_state.with_sink(st), icon.imports)
            for c in icon.ensures:
                name = '%s.implements[%s].ensures[%s]' % (self.short, icon.key.split('::')[1], c.label)
                try:
                    g = iev.bool(c.expr)
                except SpecError as ex:
                    self.stale(name, str(ex))
                    continue
                self.prove(st, g, name, 'ensures', ins.get('pos'), c.text, assume_after=False)
        self.check_frame(st, fr, ev, ins)

    def implemented(self, st):
        """[(interface-method contract, env with recv = the boxed receiver and the method's
        parameters by position)] for the `implements` clauses of the contract"""
        out = []
        keys = (self.contract.opts.get('implements') or '').split()
        if not keys:
            return out
        params = self.fn.get('params') or []
        if not params:
            return out
        for k in keys:
            icon = self.prog.cs.funcs.get(k)
            if icon is None:
                self.stale('%s.implements[%s]' % (self.short, k), 'no such interface-method contract')
                continue
            if icon.opts.get('funcfield') is not None:
                # a function assigned to a function-typed field: the field contract's parameter
                # names denote this function's parameters (after the bound receiver, if any)
                pn = [x for x in icon.opts['funcfield'].split(',') if x]
                ps = params[len(params) - len(pn):]
                env = {n2: self.input_vals[p2['name']] for n2, p2 in zip(pn, ps)}
                out.append((icon, env))
                continue
            recv = self.input_vals[params[0]['name']]
            bx = V.box(self.types, recv, st)
            env = {'recv': Val('any', bx.lv)}
            for i, p in enumerate(params[1:]):
                env['arg%d' % i] = self.input_vals[p['name']]
            out.append((icon, env))
        return out

    def check_frame(self, st, fr, ev, ins):
        """everything that existed at entry and is not covered by `modifies` is unchanged"""
        con = self.contract
        if con.opts.get('frame') == 'off':
            return
        targets = []
        old_ev = self.evaluator(self.entry_state.with_sink(st), fr)
        old_ev.resolver = None
        for m in (con.modifies or []):
            try:
                targets.append(self.instrs.mod_target(old_ev, m.expr))
            except SpecError as ex:
                self.stale('%s.modifies' % self.short, str(ex))
                return
        h = st.heap
        for key in sorted(h.touched, key=str):
            if key[0] == 'ghost' and con.opts.get('frame') != 'ghost':
                pass
            cur = h.r[key]
            nm = '%s.frame[%s]' % (self.short, keystr(key))
            if key in h.opaque or h.opaque_any:
                self.notes.append('frame of region %s not checkable: havocked by an opaque call' % keystr(key))
                continue
            base = self.entry_state.heap.get(key, h.sorts[key], st.alloc0)
            if cur.eq(base):
                continue
            r = z3.Int(fresh_name('fr_r'))
            idxs = []
            a, b2 = z3.Select(cur, r), z3.Select(base, r)
            conds = [r >= 0, r <= st.alloc0]
            # one more level of indexing for element regions so that ranges can be excluded
            nidx = sum(1 for x in key[2] if x == '[]') if key[0] != 'map' else (0 if key[2] == ('len',) else 1)
            if nidx >= 1:
                i0 = z3.Int(fresh_name('fr_i'))
                idxs.append(i0)
                a, b2 = z3.Select(a, i0), z3.Select(b2, i0)
            for t in targets:
                ex = t.excludes(key, r, idxs)
                if ex is not None:
                    conds.append(z3.Not(ex))
            for (hp, pre, F) in h.frames.get(key, []):
                conds.append(z3.Implies(r <= F, z3.Select(hp, r) == z3.Select(pre, r)))
            goal = z3.Implies(z3.And(conds), a == b2)
            if nm not in self.failed_names and self.valid_standalone(goal):
                self.results.append(Result(nm, 'frame', self.fnkey, 'discharged', 0.0, 'z3(standalone)', ins.get('pos'),
                                           'unchanged outside modifies'))
                continue
            self.prove(st, goal, nm, 'frame', ins.get('pos'), 'unchanged outside modifies', assume_after=False)

    # ------------------------------------------------------------ loops
    def loop_header(self, st, fr, h, pred, phis):
        """returns False when the path ends here (back edge of a cut loop)"""
        cfg = fr.cfg
        key = (id(fr), h)
        ordn = cfg.ordinal[h]
        spec = None
        if fr is self.top:
            spec = self.contract.loops.get(ordn)
        else:
            c2 = self.prog.cs.funcs.get(fr.fnkey)
            if c2 is not None:
                spec = c2.loops.get(ordn)
        body = cfg.loops[h]
        info = st.loops.get(key)
        label = '%s.loop%d' % (self.short if fr is self.top else fr.fnkey.split('::')[1], ordn)
        unroll = spec.unroll if spec is not None and spec.unroll is not None else None
        if spec is None and self.contract.opts.get('unroll'):
            unroll = int(self.contract.opts['unroll'])
        if unroll is not None:
            if info is None:
                st.loops[key] = {'count': 0, 'unroll': unroll}
                return True
            info = dict(info)
            info['count'] += 1
            st.loops[key] = info
            if info['count'] > unroll:
                self.prove(st, z3.BoolVal(False), label + '.unwind', 'unwind', None,
                           'loop exits within %d iterations' % unroll, assume_after=False)
                return False
            return True
        ev = self.evaluator(st, fr, old=self.entry_state.with_sink(st))
        invs = list(spec.invariants) if spec is not None else []
        autos = self.instrs.auto_invariants(st, fr, h, phis)
        if info is None:
            # first arrival: establish, havoc, assume
            for c in invs:
                self.prove_inv(st, fr, ev, c, h, label, 'establish')
            held = []
            for (an, af, meta) in autos:
                if (label, an) in self.dropped_auto:
                    continue
                g = af(st)
                if self.quick_valid(g):
                    held.append((an, af, meta))
                else:
                    self.dropped_auto.add((label, an))
            dec0 = None
            self.instrs.havoc_loop(st, fr, h, phis, spec)
            ev = self.evaluator(st, fr, old=self.entry_state.with_sink(st))
            for c in invs:
                try:
                    st.assume(self.inv_formula(st, fr, ev, c, h))
                except SpecError:
                    pass
            for (an, af, meta) in held:
                st.assume(af(st))
                if meta is not None:
                    # explicit instances of the frame fact are added wherever the region is read
                    rkey = meta['key']
                    st.heap.frames = dict(st.heap.frames)
                    st.heap.frames[rkey] = st.heap.frames.get(rkey, []) + [(st.heap.r[rkey], meta['pre'], meta['F'])]
            if spec is not None and spec.decreases is not None:
                try:
                    dec0 = self.inv_int(st, fr, ev, spec.decreases, h)
                except SpecError as ex:
                    self.stale(label + '.decreases', str(ex))
            st.loops[key] = {'cut': True, 'dec0': dec0, 'held': held}
            if spec is not None and spec.steps:
                st.loops[key]['head'] = st.copy()
            return True
        # back edge: preserve
        if not self.path_feasible():
            self.infeasible_ends += 1
            return False
        self.mark_covered(st)
        for c in invs:
            self.prove_inv(st, fr, ev, c, h, label, 'preserve')
        if spec is not None and spec.steps and info.get('head') is not None:
            ev3 = ev.sub()
            ev3.prev_state = info['head']
            for c in spec.steps:
                name = '%s.step[%s]' % (label, c.label)
                try:
                    g = self.inv_formula(st, fr, ev3, c, h)
                except SpecError as ex:
                    self.stale(name, str(ex))
                    continue
                self.prove(st, g, name, 'loop-step', None, c.text, assume_after=False)
        bad = False
        for (an, af, meta) in info.get('held', []):
            if (label, an) in self.dropped_auto:
                continue
            if not self.quick_valid(af(st)):
                # candidate invariant does not hold: drop it (and every other one failing here)
                # and restart the function
                self.dropped_auto.add((label, an))
                bad = True
        if bad:
            raise RestartFunction()
        if info.get('dec0') is not None:
            try:
                d1 = self.inv_int(st, fr, ev, spec.decreases, h)
                self.prove(st, z3.And(info['dec0'] >= 0, d1 < info['dec0']), label + '.decreases', 'decreases',
                           None, spec.decreases.text, assume_after=False)
            except SpecError as ex:
                self.stale(label + '.decreases', str(ex))
        self.npaths += 1
        return False

    def mark_covered(self, st):
        self.covered.update(st.toptrace)

    def uncovered_blocks(self):
        """blocks of the function no feasible explored path went through"""
        out = []
        for b in self.cfg.blocks:
            if b['idx'] not in self.covered and b.get('comment') != 'recover':
                lines = [i['pos']['line'] for i in b['instrs'] if i.get('pos')]
                out.append({'block': b['idx'], 'comment': b.get('comment'), 'line': min(lines) if lines else None})
        return out

    def retry_instantiated(self, st, goal):
        g = goal
        hyps = []
        # peel implications/conjunctions down to universally quantified conjuncts
        while z3.is_app(g) and g.decl().kind() == z3.Z3_OP_IMPLIES:
            hyps.append(g.arg(0))
            g = g.arg(1)
        conj = list(g.children()) if (z3.is_app(g) and g.decl().kind() == z3.Z3_OP_AND) else [g]
        sks = []
        newconj = []
        for c in conj:
            if z3.is_quantifier(c) and c.is_forall():
                vs = [z3.Const(fresh_name('sk_' + c.var_name(i)), c.var_sort(i)) for i in range(c.num_vars())]
                body = z3.substitute_vars(c.body(), *reversed(vs))
                sks += [v for v in vs if v.sort() == I]
                newconj.append(body)
            else:
                newconj.append(c)
        cands = list(sks) + list(getattr(st, 'keyterms', []))[:12]
        if not cands:
            return False
        insts = []
        for a in st.assumptions:
            for q in top_foralls(a):
                if q.num_vars() != 1 or q.var_sort(0) != I:
                    continue
                for sk in cands:
                    insts.append(z3.substitute_vars(q.body(), sk))
        self.solver.push()
        try:
            for h in hyps:
                self.solver.main.add(h)
            for i_ in insts[:400]:
                self.solver.main.add(i_)
            self.solver.main.add(z3.Not(z3.And(newconj)))
            return self.solver.check() == z3.unsat
        finally:
            self.solver.pop()

    def valid_standalone(self, goal, ms=1500):
        """validity without the path's assumptions (pure store-chain reasoning)"""
        s = z3.Solver()
        s.set('timeout', ms)
        s.add(z3.Not(goal))
        return s.check() == z3.unsat

    def path_feasible(self):
        return self.solver.feasible()

    def in_range_now(self, t, rng):
        """do the quantifier-free assumptions of the current path imply lo <= t <= hi?
        (a sound simplification aid: the mirror solver holds a subset of the assumptions)"""
        q = self.solver.qf
        q.push()
        q.add(z3.Or(t < rng[0], t > rng[1]))
        r = q.check()
        q.pop()
        return r == z3.unsat

    def implied_const(self, t):
        """the integer constant the quantifier-free assumptions of the current path force t to be,
        or None"""
        key = ('ic', t.get_id(), len(getattr(self._cur_state, 'assumptions', [])))
        cache = getattr(self, '_ic_cache', None)
        if cache is None:
            cache = self._ic_cache = {}
        if key in cache:
            return cache[key]
        q = self.solver.qf
        res = None
        q.push()
        try:
            if q.check() == z3.sat:
                mv = q.model().eval(t, model_completion=True)
                if z3.is_int_value(mv):
                    c = mv.as_long()
                    q.add(t != c)
                    if q.check() == z3.unsat:
                        res = c
        finally:
            q.pop()
        cache[key] = res
        return res

    def quick_valid(self, g):
        self.solver.push()
        self.solver.add(z3.Not(g))
        self.solver.set('timeout', 2000)
        r = self.solver.check()
        self.solver.set('timeout', self.opts.timeout_ms)
        self.solver.pop()
        return r == z3.unsat

    def loop_env(self, st, fr, h):
        """$i: number of completed iterations of a range loop; $v unavailable at the header"""
        env = {}
        blk = fr.cfg.blocks[h]
        for ins in blk['instrs']:
            if ins['op'] == 'Phi' and ins.get('comment') in ('rangeindex',):
                env['$i'] = mathint(st.regs[ins['name']].term + 1)
                rv = self.range_operand(st, fr, h, ins['name'])
                if rv is not None:
                    env['$range'] = rv
            if ins['op'] == 'Phi' and ins.get('comment') in ('rangeint.iter',):
                env['$i'] = mathint(st.regs[ins['name']].term)
            if ins['op'] == 'Next' and (ins.get('iter') or {}).get('name'):
                gk = self.instrs.visited_key(fr, ins['iter']['name'])
                it = st.regs.get(ins['iter']['name'])
                if gk in st.ghost and it is not None and it.bindings and self.types.kind(it.bindings[0].t) == 'map':
                    kt = self.types.desc(it.bindings[0].t)['key']
                    env['$visited'] = Val('$set', {(): st.ghost[gk]}, bindings=[kt])
        return env

    def range_operand(self, st, fr, h, phi):
        """$range: the slice (or array pointer) a range loop iterates over, when it is
        evaluated before the loop"""
        body = fr.cfg.loops[h]
        inc = None
        for bi in [h] + sorted(body):
            for ins in fr.cfg.blocks[bi]['instrs']:
                if ins['op'] == 'BinOp' and ins.get('bop') == '+' and ins['x'].get('name') == phi:
                    inc = ins['name']
                if inc and ins['op'] in ('IndexAddr', 'Index') and ins['index'].get('name') == inc:
                    x = ins['x']
                    if self.instrs.defined_outside(fr, x, body):
                        try:
                            return self.instrs.operand(st, fr, x)
                        except Exception:
                            return None
                    return None
        return None

    def inv_formula(self, st, fr, ev, c, h):
        ev2 = ev.sub(env=dict(ev.env, **self.loop_env(st, fr, h)))
        return ev2.bool(c.expr)

    def inv_int(self, st, fr, ev, c, h):
        ev2 = ev.sub(env=dict(ev.env, **self.loop_env(st, fr, h)))
        return ev2.int(c.expr)

    def prove_inv(self, st, fr, ev, c, h, label, phase):
        name = '%s.inv[%s].%s' % (label, c.label, phase)
        try:
            g = self.inv_formula(st, fr, ev, c, h)
        except SpecError as ex:
            self.stale(name, str(ex))
            return
        self.prove(st, g, name, 'invariant', None, c.text, assume_after=True)


def top_foralls(a):
    """universally quantified formulas among the top-level conjuncts of a"""
    out = []
    todo = [a]
    while todo:
        x = todo.pop()
        if z3.is_quantifier(x):
            if x.is_forall():
                out.append(x)
        elif z3.is_app(x) and x.decl().kind() == z3.Z3_OP_AND:
            todo.extend(x.children())
    return out


class RestartFunction(Exception):
    pass


def keystr(key):
    fam, tk, path = key
    tk = tk.replace('github.com/nspcc-dev/neo-go/pkg/', '')
    if len(tk) > 60:
        import zlib
        tk = 'T%08x' % zlib.crc32(tk.encode())
    return '%s:%s%s' % (fam, tk, pathstr(path))


def verify_function(prog, fnkey, opts=None):
    dropped = set()
    for attempt in range(12):
        cx = FnCtx(prog, fnkey, opts)
        cx.dropped_auto = dropped
        try:
            cx.run()
            return cx
        except RestartFunction:
            dropped = cx.dropped_auto
            continue
    raise EngineError('auto-invariant refinement did not converge for %s (dropped: %s)' % (fnkey, sorted(map(str, dropped))))
