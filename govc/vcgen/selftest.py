"""Must-fail corpus: each entry is a small semantic mutation of /repo (textual replacement)
that must turn at least one named obligation from discharged to not discharged.
Usage: python -m vcgen.selftest [name-substring...]"""
import sys, os, json, glob, subprocess, shutil, tempfile

VERIF = os.path.dirname(os.path.dirname(os.path.dirname(os.path.abspath(__file__))))


def sh(cmd, **kw):
    return subprocess.run(cmd, shell=True, capture_output=True, text=True, **kw)


def main(argv):
    entries = []
    for f in sorted(glob.glob(os.path.join(VERIF, 'mustfail', '*.json'))):
        for e in json.load(open(f)):
            e['_file'] = os.path.basename(f)
            entries.append(e)
    if argv:
        entries = [e for e in entries if any(a in e['name'] for a in argv)]
    wt = tempfile.mkdtemp(prefix='govc_mut_')
    os.rmdir(wt)
    r = sh('git -C /repo worktree add --detach %s HEAD' % wt)
    if r.returncode != 0:
        print('cannot create worktree: ' + r.stderr)
        return 2
    # the working tree may have uncommitted contract edits: copy verif files over
    sh("cd /repo && git ls-files -m -o --exclude-standard | grep verif_contracts | while read f; do mkdir -p %s/$(dirname $f); cp $f %s/$f; done" % (wt, wt))
    bad = 0
    try:
        for e in entries:
            path = os.path.join(wt, e['file'])
            src = open(path).read()
            if e['old'] not in src:
                print('SELFTEST-STALE %s: pattern not found in %s' % (e['name'], e['file']))
                bad += 1
                continue
            open(path, 'w').write(src.replace(e['old'], e['new'], 1))
            env = dict(os.environ, VERIF_REPO=wt, VERIF_WORK=os.path.join(wt, '.verifwork'), VERIF_EVIDENCE_DIR=os.path.join(wt, '.verifev'))
            r = subprocess.run([os.path.join(VERIF, 'check'), e['property'], 'quick'], env=env, capture_output=True, text=True)
            open(path, 'w').write(src)
            out = r.stdout
            viol = [l for l in out.split('\n') if l.startswith('VIOLATION')]
            hit = [x for x in e.get('expect', []) if any(sanitize(x) in l for l in viol)]
            ok = r.returncode == 1 and (hit or not e.get('expect'))
            print('%s %-50s rc=%d violations=%d expected-hit=%s' % ('ok  ' if ok else 'MISS', e['name'], r.returncode, len(viol), hit))
            if not ok:
                bad += 1
                print('\n'.join(out.split('\n')[-8:]))
    finally:
        sh('git -C /repo worktree remove --force %s' % wt)
        shutil.rmtree(wt, ignore_errors=True)
    print('selftest: %d entries, %d missed' % (len(entries), bad))
    return 1 if bad else 0


def sanitize(s):
    import re
    return re.sub(r'[^A-Za-z0-9_.-]+', '_', s)[:150]


if __name__ == '__main__':
    sys.exit(main(sys.argv[1:]))
