"""Types, symbolic values, locations and the heap model.

Every Go value is a tree whose leaves are z3 terms ("leaves" = dict path -> term):
  bool -> Bool; integers -> Int (mathematical, range-constrained, wrap-around made
  explicit at each operation); pointers/maps/chans/funcs -> Int (a reference, 0 = nil);
  string -> ('s': Array Int Int, 'n': Int); slice -> ('b' base ref,'o' offset,'l' len,'c' cap);
  interface -> ('t' type tag, 'p' payload); struct -> union of '.field'+leaf;
  array [N]T -> every leaf of T lifted to an Array Int -> leaf (path prefix '[]').
Heap (Burstall-Bornat by field): one z3 array per region key
  (family, typekey, leafpath): family 'obj' (struct objects, by ref), 'cell' (pointer to
  non-struct), 'elems' (backing arrays of slices and pointer-to-array: ref -> index -> leaf),
  'map' (ref -> key -> leaf, plus 'has' and 'len'), 'ghost' (specification-only fields).
"""
import z3

I = z3.IntSort()
B = z3.BoolSort()


class OutOfSubset(Exception):
    pass


class EngineError(Exception):
    pass


def sort_of(desc):
    if desc == 'I':
        return I
    if desc == 'B':
        return B
    if isinstance(desc, tuple) and desc[0] == 'A':
        return z3.ArraySort(I, sort_of(desc[1]))
    raise EngineError('bad sort desc %r' % (desc,))


MATHINT = '$int'
SEQ = '$seq'


class Types:
    def __init__(self, table):
        self.t = dict(table)
        self.t[MATHINT] = {'k': 'basic', 'cls': 'int', 'name': '$int', 'math': True, 'bits': 0, 'signed': True}
        self._leaves = {}
        self._ids = {}

    def add(self, table):
        for k, v in table.items():
            if k not in self.t:
                self.t[k] = v

    def get(self, key):
        if key not in self.t:
            d = self.synth(key)
            if d is None:
                raise EngineError('unknown type %r' % key)
            self.t[key] = d
        return self.t[key]

    def synth(self, key):
        """synthesise simple composite types that were not exported"""
        if key.startswith('[]'):
            self.get(key[2:])
            return {'k': 'slice', 'elem': key[2:]}
        if key.startswith('*'):
            self.get(key[1:])
            return {'k': 'ptr', 'elem': key[1:]}
        import re
        if key.startswith('map['):
            depth = 0
            for i, ch in enumerate(key):
                if ch == '[':
                    depth += 1
                elif ch == ']':
                    depth -= 1
                    if depth == 0:
                        kt, vt = key[4:i], key[i + 1:]
                        self.get(kt)
                        self.get(vt)
                        return {'k': 'map', 'key': kt, 'elem': vt}
        m = re.match(r'^\[(\d+)\](.*)$', key)
        if m:
            self.get(m.group(2))
            return {'k': 'array', 'elem': m.group(2), 'len': int(m.group(1))}
        basics = {'int': (64, True), 'int8': (8, True), 'int16': (16, True), 'int32': (32, True), 'int64': (64, True),
                  'uint': (64, False), 'uint8': (8, False), 'uint16': (16, False), 'uint32': (32, False),
                  'uint64': (64, False), 'uintptr': (64, False), 'byte': (8, False), 'rune': (32, True)}
        if key in basics:
            b, s = basics[key]
            return {'k': 'basic', 'cls': 'int', 'name': key, 'bits': b, 'signed': s}
        if key == 'bool':
            return {'k': 'basic', 'cls': 'bool', 'name': 'bool'}
        if key == 'string':
            return {'k': 'basic', 'cls': 'string', 'name': 'string'}
        if key == '$opaque':
            return {'k': 'struct', 'fields': []}
        if re.match(r'^[\w./-]+\.[A-Za-z_]\w*$', key):
            # a named type that was not part of this export: only its identity (type tag) is usable
            return {'k': 'named', 'name': key, 'under': '$opaque', 'methods': [], 'placeholder': True}
        return None

    def under(self, key):
        d = self.get(key)
        seen = 0
        while d['k'] == 'named':
            key = d['under']
            d = self.get(key)
            seen += 1
            if seen > 50:
                raise EngineError('named loop')
        if key == 'byte':
            return 'uint8'
        if key == 'rune':
            return 'int32'
        return key

    def desc(self, key):
        return self.get(self.under(key))

    def kind(self, key):
        d = self.desc(key)
        k = d['k']
        if k == 'basic':
            return d['cls']
        if k == 'sig':
            return 'func'
        return k

    def is_int(self, key):
        return self.kind(key) == 'int'

    def int_range(self, key):
        d = self.desc(key)
        if d.get('math'):
            return None
        bits = d['bits']
        if d['signed']:
            return (-(1 << (bits - 1)), (1 << (bits - 1)) - 1)
        return (0, (1 << bits) - 1)

    def elem(self, key):
        return self.desc(key)['elem']

    def fields(self, key):
        return self.desc(key)['fields'] or []

    def typeid(self, key):
        key = self.norm(key)
        if key not in self._ids:
            # stable across runs: derived from the key text
            import zlib
            self._ids[key] = 1 + (zlib.crc32(key.encode()) & 0x3fffffff)
        return self._ids[key]

    def norm(self, key):
        # byte and rune are aliases: one identity for `[]byte` and `[]uint8` (go/types prints
        # whichever spelling the source used)
        if 'byte' in key or 'rune' in key:
            import re
            key = re.sub(r'(?<![A-Za-z0-9_.])byte(?![A-Za-z0-9_])', 'uint8', key)
            key = re.sub(r'(?<![A-Za-z0-9_.])rune(?![A-Za-z0-9_])', 'int32', key)
        return key

    def canon(self, key):
        """canonical region key for a struct type: its underlying struct"""
        return self.under(key)

    def leaves(self, key):
        """list of (path, sortdesc, role) ; role carries the range information"""
        if key in self._leaves:
            return self._leaves[key]
        k = self.kind(key)
        if k == 'bool':
            r = [((), 'B', ('bool',))]
        elif k == 'int':
            r = [((), 'I', ('int', self.under(key)))]
        elif k in ('ptr', 'map', 'chan', 'func', 'unsafeptr', 'nil'):
            r = [((), 'I', ('ref', key))]
        elif k == 'float':
            r = [((), 'I', ('opaque',))]
        elif k == 'string':
            r = [(('s',), ('A', 'I'), ('bytes',)), (('n',), 'I', ('len',))]
        elif k == 'slice':
            r = [(('b',), 'I', ('ref', key)), (('o',), 'I', ('len',)), (('l',), 'I', ('len',)), (('c',), 'I', ('len',))]
        elif k == 'iface':
            r = [(('t',), 'I', ('tag',)), (('p',), 'I', ('opaque',))]
        elif k == 'struct':
            r = []
            for f in self.fields(key):
                for (p, s, role) in self.leaves(f['type']):
                    r.append((('.' + f['name'],) + p, s, role))
        elif k == 'array':
            r = []
            for (p, s, role) in self.leaves(self.elem(key)):
                r.append((('[]',) + p, ('A', s), ('lift', role)))
        elif k == 'tuple':
            r = []
            for i, e in enumerate(self.desc(key)['elems'] or []):
                for (p, s, role) in self.leaves(e['type']):
                    r.append((('#%d' % i,) + p, s, role))
        elif k == 'typeparam':
            raise OutOfSubset('type parameter ' + key)
        else:
            raise OutOfSubset('type kind %s (%s)' % (k, key))
        self._leaves[key] = r
        return r


class Val:
    """a Go value: type key + leaves; pointer values may carry an interior location
    (loc) and slices a non-standard backing location (arr); function values the static
    function (fn) and closure bindings."""
    __slots__ = ('t', 'lv', 'loc', 'arr', 'fn', 'bindings')

    def __init__(self, t, lv, loc=None, arr=None, fn=None, bindings=None):
        self.t = t
        self.lv = lv
        self.loc = loc
        self.arr = arr
        self.fn = fn
        self.bindings = bindings

    @property
    def term(self):
        if self.lv is None:
            raise OutOfSubset('interior pointer used as a value')
        if () not in self.lv:
            raise EngineError('value of type %s is not scalar' % self.t)
        return self.lv[()]

    def sub(self, prefix, t):
        n = len(prefix)
        return Val(t, {p[n:]: v for p, v in self.lv.items() if p[:n] == prefix})

    def __repr__(self):
        return 'Val<%s %s>' % (self.t, self.lv)


def scalar(t, term):
    return Val(t, {(): term})


_fresh_ctr = [0]


def fresh_name(base):
    _fresh_ctr[0] += 1
    return '%s!%d' % (base, _fresh_ctr[0])


def pathstr(p):
    return ''.join(p)


class Loc:
    """a memory location: region family + type key + reference + access steps.
    steps: ('f', fieldname) or ('i', z3 Int index). t = Go type stored at the location."""
    __slots__ = ('fam', 'tk', 'ref', 'steps', 't')

    def __init__(self, fam, tk, ref, steps, t):
        self.fam = fam
        self.tk = tk
        self.ref = ref
        self.steps = steps
        self.t = t

    def static_path(self):
        return tuple(('.' + s[1]) if s[0] == 'f' else '[]' for s in self.steps)

    def indices(self):
        return [s[1] for s in self.steps if s[0] == 'i']

    def __repr__(self):
        return 'Loc(%s,%s,%s,%s:%s)' % (self.fam, self.tk, self.ref, self.steps, self.t)


class Heap:
    """immutable-style heap: dict region key -> z3 array term, plus the base generation
    of every region (for the allocation-frontier facts)."""

    def __init__(self, types, tag='H0'):
        self.types = types
        self.r = {}
        self.tag = tag
        self.gen = {}   # region key -> (base array term, frontier term)

    def copy(self):
        h = Heap(self.types, self.tag)
        h.r = dict(self.r)
        h.gen = dict(self.gen)
        return h


def lift(sortdesc, n):
    for _ in range(n):
        sortdesc = ('A', sortdesc)
    return sortdesc
