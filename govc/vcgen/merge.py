"""Merging of symbolic states at control-flow joins (ite over registers and heap regions)."""
import z3
from .sym import Val, Loc, fresh_name, OutOfSubset
from .state import Event


def same_loc(a, b):
    if a is None and b is None:
        return True
    if a is None or b is None:
        return False
    if a.fam != b.fam or a.tk != b.tk or a.t != b.t or len(a.steps) != len(b.steps):
        return False
    if not a.ref.eq(b.ref):
        return False
    for x, y in zip(a.steps, b.steps):
        if x[0] != y[0]:
            return False
        if x[0] == 'f':
            if x[1] != y[1]:
                return False
        elif not x[1].eq(y[1]):
            return False
    return True


def ite_chain(conds, terms):
    r = terms[-1]
    for c, t in zip(reversed(conds[:-1]), reversed(terms[:-1])):
        r = z3.If(c, t, r)
    return r


def merge_vals(conds, vals):
    """None if the values cannot be merged"""
    v0 = vals[0]
    if all(v is v0 for v in vals):
        return v0
    if any(not isinstance(v, Val) for v in vals):
        return None
    if any(v.t != v0.t for v in vals):
        return None
    if any((v.lv is None) != (v0.lv is None) for v in vals):
        return None
    if any(not same_loc(v.loc, v0.loc) for v in vals):
        return None
    if any(not same_loc(v.arr, v0.arr) for v in vals):
        return None
    if any(v.fn != v0.fn for v in vals):
        return None
    if v0.bindings or any(v.bindings for v in vals):
        if any(v.bindings is not v0.bindings for v in vals):
            return None
    if v0.lv is None:
        return v0
    lv = {}
    for p in v0.lv:
        ts = [v.lv[p] for v in vals]
        if all(t.eq(ts[0]) for t in ts):
            lv[p] = ts[0]
        else:
            lv[p] = ite_chain(conds, ts)
    return Val(v0.t, lv, loc=v0.loc, arr=v0.arr, fn=v0.fn, bindings=v0.bindings)


def merge_states(cx, parent, states, base_len, base_pc, live=None):
    """states: arms that reached the join. Returns a merged state derived from `parent`
    (the solver is at the parent's level), or None when shapes differ."""
    if len(states) == 1:
        return None
    conds = []
    for s in states:
        pcs = s.pathconds[base_pc:]
        conds.append(z3.And(pcs) if pcs else z3.BoolVal(True))
    m = parent.copy()
    # defers / loops must agree
    for s in states:
        if len(s.defers) != len(states[0].defers) or set(s.loops.keys()) != set(states[0].loops.keys()):
            return None
    m.defers = list(states[0].defers)
    m.loops = dict(states[0].loops)
    # registers
    keys = set(states[0].regs.keys())
    for s in states[1:]:
        keys &= set(s.regs.keys())
    regs = {}
    for k in keys:
        v = merge_vals(conds, [s.regs[k] for s in states])
        if v is not None:
            regs[k] = v
        elif live is None or k in live:
            import os, sys
            if os.environ.get('VCGEN_TRACE_PATHS'):
                print('MERGE-FAIL reg', k, [repr(s.regs[k])[:120] for s in states], file=sys.stderr)
            return None   # a register that may still be read cannot be merged: keep the arms apart
    m.regs = regs
    # names: keep agreeing entries
    names = dict(states[0].names)
    for s in states[1:]:
        for n in list(names.keys()):
            if s.names.get(n) != names[n]:
                del names[n]
    m.names = names
    seen = set()
    for s in states:
        seen |= getattr(s, 'names_seen', set())
    m.names_seen = seen
    # read-only provenance: kept only where every arm agrees (no alarm from an arm that replaced the
    # value by a writable one)
    ro = dict(getattr(states[0], 'ro', {}))
    for s in states[1:]:
        o = getattr(s, 'ro', {})
        for k in list(ro.keys()):
            if k not in o:
                del ro[k]
    m.ro = ro
    # heap
    allkeys = set()
    for s in states:
        allkeys |= set(s.heap.r.keys())
    h = parent.heap.copy()
    ids0 = [id(e) for e in states[0].heap.events]
    extra_events = any([id(e) for e in s.heap.events] != ids0 for s in states)
    for key in allkeys:
        sd = None
        for s in states:
            if key in s.heap.sorts:
                sd = s.heap.sorts[key]
        terms = [s.heap.get(key, sd, s.alloc0) for s in states]
        if all(t.eq(terms[0]) for t in terms):
            h.r[key] = terms[0]
        else:
            h.r[key] = ite_chain(conds, terms)
        layers = []
        seen = set()
        for s in states:
            for (bt, fr) in s.heap.layers.get(key, []):
                k2 = (bt.get_id(), fr.get_id())
                if k2 not in seen:
                    seen.add(k2)
                    layers.append((bt, fr))
        # a layer bound only holds on its own arm; the merged frontier bounds them all
        h.layers[key] = layers
        h.sorts.setdefault(key, sd)
    for s in states:
        for fk, fl in s.heap.frames.items():
            cur = h.frames.get(fk, [])
            ids = {(a.get_id(), b.get_id()) for (a, b, c) in cur}
            h.frames[fk] = cur + [x for x in fl if (x[0].get_id(), x[1].get_id()) not in ids]
    h.opaque_any = any(s.heap.opaque_any for s in states)
    for s in states:
        h.touched |= s.heap.touched
        h.opaque |= s.heap.opaque
    # frontier
    fts = [s.frontier for s in states]
    if all(f.eq(fts[0]) for f in fts):
        m.frontier = fts[0]
    else:
        F = z3.Int(fresh_name('frontier_join'))
        m.frontier = F
    if extra_events:
        from .state import JoinEvent
        h.events = [JoinEvent([(c, list(s.heap.events)) for c, s in zip(conds, states)])]
    else:
        h.events = list(states[0].heap.events)
    # layer frontiers refer to arm frontiers <= merged frontier
    m.heap = h
    m.nalloc = max(s.nalloc for s in states)
    m.callcount = max(s.callcount for s in states)
    locs = list(parent.locals)
    for s in states:
        for l in s.locals[len(parent.locals):]:
            locs.append(l)
    m.locals = locs
    tt = list(parent.toptrace)
    tr = list(parent.trace)
    for s in states:
        tt += s.toptrace[len(parent.toptrace):]
    m.toptrace = tt
    m.trace = tr + ['join']
    # ghost counters (call counts): conditional on the arm taken
    gk = set()
    for s in states:
        gk |= set(s.ghost.keys())
    mg = {}
    for k in gk:
        if k.startswith('visited:') and any(k not in s.ghost for s in states):
            continue   # the iterator does not exist on every arm: nothing is known about it
        ts = [s.ghost.get(k, z3.IntVal(0)) for s in states]
        if all(t.eq(ts[0]) for t in ts):
            mg[k] = ts[0]
        else:
            mg[k] = ite_chain(conds, ts)
    m.ghost = mg
    m.stops = list(parent.stops)
    m.pathconds = list(parent.pathconds)
    # assumptions: disjunction of the arms' additions
    # assumptions: what an arm added holds under that arm's path condition (the arms are mutually
    # exclusive by construction); definitions of fresh symbols hold unconditionally. Stated fact
    # by fact so that the quantifier-free ones remain usable on their own.
    m.assumptions = list(parent.assumptions)
    m.assumed_ids = set(parent.assumed_ids)
    m.defs = set(parent.defs) if hasattr(parent, 'defs') else set()
    kts = list(getattr(parent, 'keyterms', []))
    for s0 in states:
        for x in getattr(s0, 'keyterms', []):
            if all(not x.eq(y) for y in kts):
                kts.append(x)
    m.keyterms = kts
    m.keyfacts = list(getattr(parent, 'keyfacts', []))
    m.assume(z3.Or(conds))
    for c, s in zip(conds, states):
        sdefs = getattr(s, 'defs', set())
        for f in s.assumptions[base_len:]:
            if f.get_id() in sdefs:
                m.assume(f, definitional=True)
            elif z3.is_true(c):
                m.assume(f)
            else:
                m.assume(z3.Implies(c, f))
    if not all(f.eq(fts[0]) for f in fts):
        m.assume(z3.And([m.frontier >= f for f in fts]))
    return m
