"""SSA instruction semantics."""
import z3
from .sym import I, B, Val, Loc, scalar, sort_of, fresh_name, pathstr, OutOfSubset, EngineError, MATHINT, lift
from . import ops
from . import values as V
from .values import mathint, boolv
from .state import State, Event, nested_select, nested_store
from .speceval import Ev, SpecError, NilV
from .calls import CallsMixin

ERASED_CALLS = {
    'sync::(*Mutex).Lock', 'sync::(*Mutex).Unlock', 'sync::(*RWMutex).Lock', 'sync::(*RWMutex).Unlock',
    'sync::(*RWMutex).RLock', 'sync::(*RWMutex).RUnlock', 'sync::(*Mutex).TryLock',
    'sync/atomic::(*Bool).Store', 'sync/atomic::(*Int32).Store',
}


class ModTarget:
    """a `modifies` target, able to say which (ref, idx) of a region it covers"""

    def __init__(self, kind, **kw):
        self.kind = kind
        self.__dict__.update(kw)

    def excludes(self, key, r, idxs):
        """z3 Bool: location (r, idxs) of region key is covered by this target; None if unrelated"""
        if self.kind == 'loc':
            loc = self.loc
            if key[0] != loc.fam or key[1] != loc.tk:
                return None
            sp = loc.static_path()
            if key[2][:len(sp)] != sp:
                return None
            c = [r == loc.ref]
            li = loc.indices()
            for a, b in zip(idxs, li):
                c.append(a == b)
            return z3.And(c)
        if self.kind == 'range':
            sl = self.sl
            if self.arr is not None:
                base = self.arr
                if key[0] != base.fam or key[1] != base.tk:
                    return None
                sp = base.static_path() + ('[]',)
                if key[2][:len(sp)] != sp:
                    return None
                c = [r == base.ref]
                li = base.indices()
                # the range index is the first index after the base's own indices
                if len(li) == 0 and idxs:
                    c.append(z3.And(idxs[0] >= self.lo, idxs[0] < self.hi))
                return z3.And(c)
            if key[0] != 'elems' or key[1] != self.tk:
                return None
            c = [r == sl.lv[('b',)]]
            if idxs:
                c.append(z3.And(idxs[0] >= self.lo, idxs[0] < self.hi))
            return z3.And(c)
        if self.kind == 'region':
            if key[0] != self.fam or key[1] != self.tk:
                return None
            pre = getattr(self, 'prefix', None)
            if pre and key[2][:len(pre)] != pre:
                return None
            return z3.BoolVal(True)
        if self.kind == 'map':
            if key[0] != 'map' or key[1] != self.tk:
                return None
            c = [r == self.ref]
            if self.key is not None and idxs and key[2] != ('len',):
                c.append(idxs[0] == self.key)
            return z3.And(c)
        return None


class Instrs(CallsMixin):
    def __init__(self, cx):
        self.cx = cx
        self.types = cx.types
        self.prog = cx.prog

    # ------------------------------------------------------------ operands
    def operand(self, st, fr, o, want=None):
        types = self.types
        k = o['k']
        if k in ('reg', 'param', 'freevar'):
            if o['name'] not in st.regs:
                raise EngineError('undefined register %s in %s' % (o['name'], fr.fnkey))
            return st.regs[o['name']]
        if k == 'const':
            t = o['type']
            if o.get('nil'):
                return V.zero_val(types, t)
            if 'int' in o:
                kk = types.kind(t)
                if kk == 'float':
                    return scalar(t, z3.IntVal(int(o['int'])))
                return scalar(t, z3.IntVal(int(o['int'])))
            if 'bool' in o:
                return scalar(t, z3.BoolVal(o['bool']))
            if 'str' in o:
                bs = o['str']
                arr = z3.K(I, z3.IntVal(0))
                for i, b in enumerate(bs):
                    arr = z3.Store(arr, i, z3.IntVal(b))
                return Val(t, {('s',): arr, ('n',): z3.IntVal(len(bs))})
            if 'float' in o:
                return scalar(t, z3.Int(fresh_name('float')))
            raise OutOfSubset('constant %r' % (o,))
        if k == 'global':
            # address of a package-level variable
            ref = ops.uf('global_' + o['name'].replace('/', '_'), I)()
            st.assume(z3.And(ref > 0, ref <= st.alloc0))
            return Val(o['type'], {(): ref})
        if k == 'func':
            fid = ops.uf('func_' + str(abs(hash(o['name'])) % (10 ** 9)), I)()
            return Val(o['type'], {(): fid}, fn=o['name'], bindings=[])
        if k == 'builtin':
            return Val(o['type'], {(): z3.IntVal(0)}, fn='builtin::' + o['name'])
        raise EngineError('operand kind %s' % k)

    # ------------------------------------------------------------ panics
    def panic_check(self, st, fr, ins, cond_ok, what):
        """cond_ok must hold, otherwise the instruction panics"""
        cx = self.cx
        pos = ins.get('pos')
        key = (fr.fnkey, what, (pos or {}).get('line'), (pos or {}).get('col'))
        cnt = cx.panic_ord.setdefault((fr.fnkey, what), {})
        if key not in cnt:
            cnt[key] = len(cnt)
        name = '%s.nopanic.%s#%d' % (cx.short if fr is cx.top else fr.fnkey.split('::')[1], what, cnt[key])
        con = cx.contract
        if con.may_panic:
            st.assume(cond_ok)
            return
        if con.panics_if:
            allowed = cx.panic_allowed(st, fr)
            goal = z3.Or(cond_ok, allowed)
            cx.prove(st, goal, name, 'panic', pos, what, assume_after=False)
            st.assume(cond_ok)
            return
        cx.prove(st, cond_ok, name, 'panic', pos, what, assume_after=True)

    def explicit_panic(self, st, fr, ins):
        if self.cx.path_feasible():
            self.cx.mark_covered(st)
        if self.cx.contract.opts.get('explicit-panic') == 'allowed' and fr is self.cx.top:
            self.cx.notes.append('explicit panic statements are allowed by the contract (allow-explicit-panic)')
            self.cx.npaths += 1
            return
        self.panic_check(st, fr, ins, z3.BoolVal(False), 'explicit')
        self.cx.npaths += 1

    def nonnil(self, st, fr, ins, v):
        if v.lv is None:
            return
        self.panic_check(st, fr, ins, v.term != 0, 'nil')

    # ------------------------------------------------------------ step
    def step(self, st, fr, b, i, ins):
        op = ins['op']
        m = getattr(self, 'op_' + op, None)
        if m is None:
            raise OutOfSubset('instruction ' + op)
        if st.ro:
            self.ro_track(st, fr, ins)
        return m(st, fr, b, i, ins)

    # ------------------------------------------------------------ read-only results
    # A callee contract may declare `opt result readonly`: what it returns is shared with others
    # (a cache of a lower layer, say) and must not be written through. Provenance is tracked on the
    # registers of the function under contract (and of what is inlined into it): a register is
    # derived from such a result if it is computed from one (field/element address, load, type
    # assertion, conversion, extraction, phi, append/slicing). A store or map update whose address
    # (map) operand is derived from one is a violation, reported as `<fn>.readonly[<callee>]`.
    RO_DERIVING = ('FieldAddr', 'IndexAddr', 'Field', 'Index', 'TypeAssert', 'ChangeType', 'Convert', 'Extract',
                   'MakeInterface', 'Slice', 'UnOp', 'ChangeInterface', 'Lookup', 'SliceToArrayPointer')

    def ro_src(self, st, fr, v):
        if isinstance(v, dict) and v.get('k') in ('reg', 'param', 'freevar'):
            return st.ro.get((id(fr), v.get('name')))
        return None

    def ro_track(self, st, fr, ins):
        op = ins['op']
        name = ins.get('name')
        if op == 'Store':
            src = self.ro_src(st, fr, ins.get('addr'))
            if src:
                self.ro_violation(st, fr, ins, src, 'store')
            return
        if op == 'MapUpdate':
            src = self.ro_src(st, fr, ins.get('map'))
            if src:
                self.ro_violation(st, fr, ins, src, 'map update')
            return
        if name is None:
            return
        src = None
        if op in self.RO_DERIVING:
            if op == 'UnOp' and ins.get('uop') != '*':
                return
            for k in ('x', 'tuple'):
                src = src or self.ro_src(st, fr, ins.get(k))
        elif op == 'Call':
            call = ins.get('call') or {}
            fnv = call.get('fn') or {}
            if fnv.get('k') == 'builtin' and fnv.get('name') in ('append', 'copy'):
                args = call.get('args') or []
                if args:
                    src = self.ro_src(st, fr, args[0])
                    if src and fnv.get('name') == 'copy':
                        self.ro_violation(st, fr, ins, src, 'copy into')
                        return
        if src:
            st.ro[(id(fr), name)] = src
        elif (id(fr), name) in st.ro:
            del st.ro[(id(fr), name)]

    def ro_violation(self, st, fr, ins, src, what):
        from .engine import Result
        cx = self.cx
        if not cx.path_feasible():
            return
        n = '%s.readonly[%s]' % (cx.short, src)
        cx.ro_failed = True
        cx.results.append(Result(n, 'readonly', cx.fnkey, 'failed', seconds=0.0, pos=ins.get('pos'),
                                 text='nothing is written through a value obtained from %s' % src,
                                 note='%s through a value derived from the read-only result of %s' % (what, src)))

    def setreg(self, st, ins, v):
        st.regs[ins['name']] = v

    def op_DebugRef(self, st, fr, b, i, ins):
        idn = ins.get('ident')
        if idn and idn != '_':
            x = ins['x']
            if x['k'] in ('reg', 'param', 'freevar') and fr is self.cx.top:
                st.names[idn] = ('addr' if ins.get('addr') else 'reg', x['name'])
                st.names_seen.add(idn)

    def op_Alloc(self, st, fr, b, i, ins):
        types = self.types
        t = ins['type']
        et = types.elem(t)
        ref = st.new_ref('alloc')
        loc = st.loc_for(et, ref)
        st.store(loc, V.zero_val(types, et))
        v = Val(t, {(): ref})
        self.zero_ghosts(st, loc, et, 0)
        # private until its address is stored or handed to unknown code (see escape())
        st.locals.append(loc)
        if fr is self.cx.top and ins.get('name') in self.cx.const_allocs():
            # a variable captured by closures that none of them (nor this function) ever assigns:
            # its cell keeps its value whatever is called
            self.cx._const_ids.add(ref.get_id())
            self.cx._const_keep.append(ref)
        self.setreg(st, ins, v)
        if ins.get('comment') and fr is self.cx.top:
            st.names.setdefault(ins['comment'], ('addr', ins['name']))

    def zero_ghosts(self, st, loc, t, depth):
        """specification-only fields declared `zero` are 0 in a freshly allocated object (and in
        the struct-valued fields nested in it)"""
        gz = getattr(self.prog.cs, 'ghost_zero', None)
        if not gz or depth > 3:
            return
        types = self.types
        d = types.get(t)
        tn = d.get('name') if d['k'] == 'named' else None
        if tn:
            for (tname, fld) in gz:
                if tname == tn:
                    ref = loc.ref if not loc.steps else V.interior_handle(loc)
                    st.store(Loc('ghost', tn + '.' + fld, ref, [], MATHINT), mathint(0))
        if types.kind(t) == 'struct':
            for f in types.fields(t):
                if types.kind(f['type']) == 'struct':
                    self.zero_ghosts(st, st.field_loc(loc, f['name'], f['type']), f['type'], depth + 1)

    def op_BinOp(self, st, fr, b, i, ins):
        x = self.operand(st, fr, ins['x'])
        y = self.operand(st, fr, ins['y'])
        self.setreg(st, ins, self.binop(st, fr, ins, ins['bop'], x, y, ins['type']))

    def binop(self, st, fr, ins, op, x, y, rt):
        types = self.types
        if op in ('==', '!='):
            r = V.eq_vals(types, x, y, st)
            return scalar(rt, r if op == '==' else z3.Not(r))
        kx = types.kind(x.t)
        if kx == 'string':
            if op == '+':
                r = V.fresh_val(types, rt, 'concat')
                st.assume(r.lv[('n',)] == x.lv[('n',)] + y.lv[('n',)])
                k = z3.Int(fresh_name('k'))
                xn = x.lv[('n',)]
                st.assume(z3.ForAll([k], z3.Select(r.lv[('s',)], k) ==
                                    z3.If(k < xn, z3.Select(x.lv[('s',)], k), z3.Select(y.lv[('s',)], k - xn))))
                return r
            f = ops.uf('strcmp', z3.ArraySort(I, I), I, z3.ArraySort(I, I), I, I)
            c = f(x.lv[('s',)], x.lv[('n',)], y.lv[('s',)], y.lv[('n',)])
            return scalar(rt, {'<': c < 0, '<=': c <= 0, '>': c > 0, '>=': c >= 0}[op])
        if kx == 'bool':
            a, c = x.term, y.term
            if op == '&&' or op == '&':
                return scalar(rt, z3.And(a, c))
            if op == '||' or op == '|':
                return scalar(rt, z3.Or(a, c))
            raise OutOfSubset('bool op ' + op)
        if kx == 'float':
            if op in ('<', '<=', '>', '>='):
                return scalar(rt, z3.Bool(fresh_name('fcmp')))
            return scalar(rt, z3.Int(fresh_name('fop')))
        a, c = x.term, y.term
        if op in ('<', '<=', '>', '>='):
            return scalar(rt, {'<': a < c, '<=': a <= c, '>': a > c, '>=': a >= c}[op])
        if op == '+':
            r = self.wrap_checked(a + c, rt)
        elif op == '-':
            r = self.wrap_checked(a - c, rt)
        elif op == '*':
            r = self.wrap_checked(a * c, rt)
        elif op == '/':
            self.panic_check(st, fr, ins, c != 0, 'divzero')
            r = ops.wrap(types, ops.tdiv(a, c), rt)
        elif op == '%':
            self.panic_check(st, fr, ins, c != 0, 'divzero')
            r = ops.trem(a, c)
        elif op in ('<<', '>>'):
            if types.int_range(y.t) and types.int_range(y.t)[0] < 0:
                self.panic_check(st, fr, ins, c >= 0, 'negshift')
            r = ops.shift(types, op, a, c, rt, st)
        elif op in ('&', '|', '^', '&^'):
            r = ops.bitop(types, op, a, c, rt, st)
        else:
            raise OutOfSubset('binop ' + op)
        return scalar(rt, r)

    def op_UnOp(self, st, fr, b, i, ins):
        types = self.types
        op = ins['uop']
        x = self.operand(st, fr, ins['x'])
        rt = ins['type']
        if op == '*':
            self.nonnil(st, fr, ins, x)
            v = st.load(st.ptr_loc(x))
            v = Val(rt, v.lv)
            self.setreg(st, ins, v)
            return
        if op == '!':
            self.setreg(st, ins, scalar(rt, z3.Not(x.term)))
            return
        if op == '-':
            if types.kind(rt) == 'float':
                self.setreg(st, ins, scalar(rt, z3.Int(fresh_name('fneg'))))
                return
            self.setreg(st, ins, scalar(rt, ops.wrap(types, -x.term, rt)))
            return
        if op == '^':
            rng = types.int_range(rt)
            if rng[0] == 0:
                self.setreg(st, ins, scalar(rt, rng[1] - x.term))
            else:
                self.setreg(st, ins, scalar(rt, -x.term - 1))
            return
        if op == '<-':
            # channel receive: the received value is unknown; scheduling is not modelled
            self.cx.erased.add('channel receive')
            v = V.fresh_val(types, rt, 'recv')
            st.type_facts(v)
            self.setreg(st, ins, v)
            return
        raise OutOfSubset('unop ' + op)

    def op_ChangeInterface(self, st, fr, b, i, ins):
        x = self.operand(st, fr, ins['x'])
        self.setreg(st, ins, Val(ins['type'], x.lv))

    def op_ChangeType(self, st, fr, b, i, ins):
        x = self.operand(st, fr, ins['x'])
        self.setreg(st, ins, Val(ins['type'], x.lv, loc=None if x.loc is None else self.retype_loc(x.loc, ins['type']),
                                 arr=x.arr, fn=x.fn, bindings=x.bindings))

    def retype_loc(self, loc, pt):
        et = self.types.elem(pt)
        return Loc(loc.fam, loc.tk, loc.ref, loc.steps, et)

    def op_Convert(self, st, fr, b, i, ins):
        types = self.types
        x = self.operand(st, fr, ins['x'])
        rt = ins['type']
        kx, kr = types.kind(x.t), types.kind(rt)
        if kx == 'int' and kr == 'int':
            self.setreg(st, ins, scalar(rt, ops.wrap(types, x.term, rt)))
        elif kx == 'string' and kr == 'slice':
            # []byte(s): fresh backing array holding the bytes of s
            ref = st.new_ref('conv')
            et = types.elem(rt)
            key, reg = st.region('elems', st.elems_tk(et), ('[]',), ('A', 'I'))
            st.heap.set(key, z3.Store(reg, ref, x.lv[('s',)]))
            n = x.lv[('n',)]
            self.setreg(st, ins, Val(rt, {('b',): ref, ('o',): z3.IntVal(0), ('l',): n, ('c',): n}))
        elif kx == 'slice' and kr == 'string':
            ev = Ev(self.cx, st, {}, self.cx.pkg)
            s = ev.to_seq(x)
            self.setreg(st, ins, Val(rt, s.lv))
        elif kx == 'int' and kr == 'string':
            r = V.fresh_val(types, rt, 'runestr')
            st.type_facts(r)
            self.setreg(st, ins, r)
        elif kr == 'float' or kx == 'float':
            r = V.fresh_val(types, rt, 'fconv')
            st.type_facts(r)
            self.setreg(st, ins, r)
        elif kx == kr and kx in ('ptr', 'unsafeptr'):
            self.setreg(st, ins, Val(rt, x.lv))
        else:
            raise OutOfSubset('convert %s -> %s' % (x.t, rt))

    def op_MakeInterface(self, st, fr, b, i, ins):
        x = self.operand(st, fr, ins['x'])
        v = V.box(self.types, x, st)
        self.setreg(st, ins, Val(ins['type'], v.lv, loc=v.loc))

    def op_TypeAssert(self, st, fr, b, i, ins):
        types = self.types
        x = self.operand(st, fr, ins['x'])
        at = ins['asserted']
        tag = x.lv[('t',)]
        if types.kind(at) == 'iface':
            f = ops.uf('implements_%d' % types.typeid(at), I, B)
            ok = z3.And(tag != 0, f(tag))
            if not types.desc(at).get('methods'):
                ok = tag != 0
            val = Val(at, x.lv)
        else:
            ok = tag == types.typeid(at)
            val = V.unbox(types, x, at, st)
        if ins.get('commaok'):
            z = V.zero_val(types, at)
            res = V.ite_val(ok, val, z) if val.lv else val
            tup = Val(ins['type'], tuple_lv([res, scalar('bool', ok)]))
            self.setreg(st, ins, tup)
        else:
            if self.from_atomic_value(fr, ins['x']):
                # sync/atomic.Value holds one concrete type for its whole life (Store panics on any
                # other): a non-nil content asserted to that type is taken to have it
                self.cx.assumed_used.add('contents of a sync/atomic.Value have the asserted concrete type (the Value only ever stores that type)')
                st.assume(z3.Or(tag == 0, ok))
            self.panic_check(st, fr, ins, ok, 'typeassert')
            self.setreg(st, ins, val)

    def from_atomic_value(self, fr, o):
        if not o or o.get('k') != 'reg':
            return False
        d = self.def_instr(fr, o['name'])
        if d and d['op'] == 'Call' and 'call' in d:
            fn = (d['call'].get('fn') or {}).get('name', '')
            return fn.startswith('sync/atomic::(*Value).')
        return False

    def op_Extract(self, st, fr, b, i, ins):
        x = self.operand(st, fr, ins['x'])
        idx = ins['index']
        self.setreg(st, ins, x.sub(('#%d' % idx,), ins['type']))

    def op_Field(self, st, fr, b, i, ins):
        x = self.operand(st, fr, ins['x'])
        v = V.field_val(self.types, x, ins['fname'])
        self.setreg(st, ins, Val(ins['type'], v.lv))

    def op_FieldAddr(self, st, fr, b, i, ins):
        types = self.types
        x = self.operand(st, fr, ins['x'])
        self.nonnil(st, fr, ins, x)
        base = st.ptr_loc(x)
        ft = types.elem(ins['type'])
        loc = st.field_loc(base, ins['fname'], ft)
        hd = V.interior_handle(loc)
        st.assume(z3.And(hd < 0, ops.uf('ptrbase', I, I)(hd) == loc.ref))   # handles of interior pointers are negative: never nil, never an object reference
        self.setreg(st, ins, Val(ins['type'], {(): hd}, loc=loc))

    def op_Index(self, st, fr, b, i, ins):
        types = self.types
        x = self.operand(st, fr, ins['x'])
        idx = self.operand(st, fr, ins['index']).term
        k = types.kind(x.t)
        if k == 'array':
            n = types.desc(x.t)['len']
            self.panic_check(st, fr, ins, z3.And(idx >= 0, idx < n), 'index')
            v = V.index_array_val(types, x, idx)
            st.type_facts(Val(ins['type'], v.lv))
            self.setreg(st, ins, Val(ins['type'], v.lv))
        elif k == 'string':
            self.panic_check(st, fr, ins, z3.And(idx >= 0, idx < x.lv[('n',)]), 'index')
            t = z3.Select(x.lv[('s',)], idx)
            st.assume(z3.And(t >= 0, t <= 255))
            self.setreg(st, ins, scalar(ins['type'], t))
        else:
            raise OutOfSubset('Index on ' + k)

    def op_IndexAddr(self, st, fr, b, i, ins):
        types = self.types
        x = self.operand(st, fr, ins['x'])
        idx = self.operand(st, fr, ins['index']).term
        k = types.kind(x.t)
        et = types.elem(ins['type'])
        if k == 'slice':
            self.panic_check(st, fr, ins, z3.And(idx >= 0, idx < x.lv[('l',)]), 'index')
            loc = st.elem_loc(x, idx)
        elif k == 'ptr':
            self.nonnil(st, fr, ins, x)
            aloc = st.ptr_loc(x)
            n = types.desc(aloc.t)['len']
            self.panic_check(st, fr, ins, z3.And(idx >= 0, idx < n), 'index')
            loc = st.array_elem_loc(aloc, idx)
        else:
            raise OutOfSubset('IndexAddr on ' + k)
        loc = Loc(loc.fam, loc.tk, loc.ref, loc.steps, et)
        hd = V.interior_handle(loc)
        st.assume(z3.And(hd < 0, ops.uf('ptrbase', I, I)(hd) == loc.ref))
        self.setreg(st, ins, Val(ins['type'], {(): hd}, loc=loc))

    def op_Store(self, st, fr, b, i, ins):
        a = self.operand(st, fr, ins['addr'])
        v = self.operand(st, fr, ins['val'])
        self.nonnil(st, fr, ins, a)
        loc = st.ptr_loc(a)
        self.escape(st, [v])
        st.store(loc, Val(loc.t, v.lv, arr=v.arr))

    def op_Slice(self, st, fr, b, i, ins):
        types = self.types
        x = self.operand(st, fr, ins['x'])
        lo = self.operand(st, fr, ins['low']).term if ins.get('low') else z3.IntVal(0)
        k = types.kind(x.t)
        rt = ins['type']
        if k == 'slice':
            ln, cp = x.lv[('l',)], x.lv[('c',)]
            hi = self.operand(st, fr, ins['high']).term if ins.get('high') else ln
            mx = self.operand(st, fr, ins['max']).term if ins.get('max') else cp
            self.panic_check(st, fr, ins, z3.And(0 <= lo, lo <= hi, hi <= mx, mx <= cp), 'slice')
            lv = {('b',): x.lv[('b',)], ('o',): x.lv[('o',)] + lo, ('l',): hi - lo, ('c',): mx - lo}
            self.setreg(st, ins, Val(rt, lv, arr=x.arr))
        elif k == 'string':
            ln = x.lv[('n',)]
            hi = self.operand(st, fr, ins['high']).term if ins.get('high') else ln
            self.panic_check(st, fr, ins, z3.And(0 <= lo, lo <= hi, hi <= ln), 'slice')
            ev = Ev(self.cx, st, {}, self.cx.pkg)
            s = ev.subseq(x.lv[('s',)], lo, hi - lo)
            self.setreg(st, ins, Val(rt, s.lv))
        elif k == 'ptr':
            self.nonnil(st, fr, ins, x)
            aloc = st.ptr_loc(x)
            n = types.desc(aloc.t)['len']
            hi = self.operand(st, fr, ins['high']).term if ins.get('high') else z3.IntVal(n)
            mx = self.operand(st, fr, ins['max']).term if ins.get('max') else z3.IntVal(n)
            self.panic_check(st, fr, ins, z3.And(0 <= lo, lo <= hi, hi <= mx, mx <= n), 'slice')
            if aloc.fam == 'elems' and not aloc.steps:
                lv = {('b',): aloc.ref, ('o',): lo, ('l',): hi - lo, ('c',): mx - lo}
                self.setreg(st, ins, Val(rt, lv))
            else:
                pseudo = ops.uf('embarr', I, I)(aloc.ref)
                lv = {('b',): pseudo, ('o',): lo, ('l',): hi - lo, ('c',): mx - lo}
                self.setreg(st, ins, Val(rt, lv, arr=aloc))
        else:
            raise OutOfSubset('Slice on ' + k)

    def op_SliceToArrayPointer(self, st, fr, b, i, ins):
        types = self.types
        x = self.operand(st, fr, ins['x'])
        at = types.elem(ins['type'])
        n = types.desc(at)['len']
        self.panic_check(st, fr, ins, x.lv[('l',)] >= n, 'slice2array')
        off = z3.simplify(x.lv[('o',)])
        if x.arr is not None:
            raise OutOfSubset('slice-to-array of embedded array')
        et = types.elem(at)
        if ops.const_val(off) == 0:
            loc = Loc('elems', st.elems_tk(et), x.lv[('b',)], [], at)
            self.setreg(st, ins, Val(ins['type'], {(): x.lv[('b',)]}, loc=loc))
            return
        # shifted view: copy semantics are only right for an immediate load; model by a fresh
        # array object equal to the shifted row (sound for the load-after-convert idiom)
        ref = st.new_ref('s2a')
        loc = Loc('elems', st.elems_tk(et), ref, [], at)
        for (p, s, role) in types.leaves(et):
            key, reg = st.region('elems', st.elems_tk(et), ('[]',) + p, ('A', s))
            row = z3.Select(reg, x.lv[('b',)])
            new = z3.Const(fresh_name('shift'), z3.ArraySort(I, sort_of(s)))
            kk = z3.Int(fresh_name('k'))
            st.assume(z3.ForAll([kk], z3.Select(new, kk) == z3.Select(row, off + kk)))
            st.heap.r[key] = z3.Store(reg, ref, new)
        st.notes.append('slice-to-array-pointer with non-zero offset modelled as a copy')
        self.setreg(st, ins, Val(ins['type'], {(): ref}, loc=loc))

    def op_MakeSlice(self, st, fr, b, i, ins):
        types = self.types
        ln = self.operand(st, fr, ins['len']).term
        cp = self.operand(st, fr, ins['cap']).term
        self.panic_check(st, fr, ins, z3.And(ln >= 0, ln <= cp), 'makeslice')
        ab = self.cx.contract.opts.get('alloc-bound')
        if ab and fr is self.cx.top:
            pos = ins.get('pos') or {}
            cnt = self.cx.panic_ord.setdefault((fr.fnkey, 'alloc'), {})
            ck = (pos.get('line'), pos.get('col'))
            if ck not in cnt:
                cnt[ck] = len(cnt)
            self.cx.prove(st, cp <= int(ab), '%s.alloc-bound#%d' % (self.cx.short, cnt[ck]), 'alloc-bound', ins.get('pos'),
                          'allocation of at most %s elements' % ab, assume_after=False)
        rt = ins['type']
        et = types.elem(rt)
        ref = st.new_ref('make')
        for (p, s, role) in types.leaves(et):
            key, reg = st.region('elems', st.elems_tk(et), ('[]',) + p, ('A', s))
            st.heap.r[key] = z3.Store(reg, ref, z3.K(I, V.zero_leaf(s)))
        self.setreg(st, ins, Val(rt, {('b',): ref, ('o',): z3.IntVal(0), ('l',): ln, ('c',): cp}))
        self.cx.allocs = getattr(self.cx, 'allocs', [])

    def op_MakeMap(self, st, fr, b, i, ins):
        types = self.types
        rt = ins['type']
        mt = types.under(rt)
        ref = st.new_ref('map')
        key, reg = st.region('map', mt, ('has',), ('A', 'B'))
        st.heap.r[key] = z3.Store(reg, ref, z3.K(I, z3.BoolVal(False)))
        key, reg = st.region('map', mt, ('len',), 'I')
        st.heap.r[key] = z3.Store(reg, ref, z3.IntVal(0))
        self.setreg(st, ins, Val(rt, {(): ref}))

    def op_MakeClosure(self, st, fr, b, i, ins):
        fn = ins['fn']
        binds = [self.operand(st, fr, x) for x in ins['bindings']]
        fid = z3.Int(fresh_name('closure'))
        st.assume(fid > 0)
        self.setreg(st, ins, Val(ins['type'], {(): fid}, fn=fn['name'], bindings=binds))

    def escape(self, st, vals):
        """allocations whose address (directly, as a slice base, or through a closure binding)
        is among vals are no longer private to this function"""
        if not st.locals:
            return
        terms = []
        todo = list(vals)
        while todo:
            v = todo.pop()
            if not isinstance(v, Val):
                continue
            if v.bindings:
                todo.extend(x for x in v.bindings if isinstance(x, Val))
            if v.loc is not None:
                terms.append(v.loc.ref)
            if v.arr is not None:
                terms.append(v.arr.ref)
            if v.lv:
                for t in v.lv.values():
                    if z3.is_int(t):
                        terms.append(t)
        if not terms:
            return
        keep = []
        const = self.cx.const_cell_ids()
        for l in st.locals:
            if any(t.eq(l.ref) for t in terms) and l.ref.get_id() not in const:
                continue
            keep.append(l)
        st.locals = keep

    def op_MakeChan(self, st, fr, b, i, ins):
        ref = st.new_ref('chan')
        self.setreg(st, ins, Val(ins['type'], {(): ref}))

    def map_regions(self, st, m):
        types = self.types
        mt = types.under(m.t)
        d = types.desc(m.t)
        kh, has = st.region('map', mt, ('has',), ('A', 'B'))
        kl, ln = st.region('map', mt, ('len',), 'I')
        vals = []
        for (p, s, role) in types.leaves(d['elem']):
            kv, reg = st.region('map', mt, ('v',) + p, ('A', s))
            vals.append((p, s, role, kv, reg))
        return (kh, has), (kl, ln), vals, d

    def op_Lookup(self, st, fr, b, i, ins):
        types = self.types
        x = self.operand(st, fr, ins['x'])
        kx = types.kind(x.t)
        if kx == 'string':
            idx = self.operand(st, fr, ins['index']).term
            self.panic_check(st, fr, ins, z3.And(idx >= 0, idx < x.lv[('n',)]), 'index')
            t = z3.Select(x.lv[('s',)], idx)
            st.assume(z3.And(t >= 0, t <= 255))
            self.setreg(st, ins, scalar(ins['type'], t))
            return
        kv = self.operand(st, fr, ins['index'])
        (kh, has), (kl, ln), vals, d = self.map_regions(st, x)
        kt = V.key_term(types, Val(d['key'], kv.lv), st)
        present = z3.And(x.term != 0, z3.Select(z3.Select(has, x.term), kt))
        st.assume(z3.Implies(present, z3.Select(ln, x.term) >= 1))
        lv = {}
        for (p, s, role, kvk, reg) in vals:
            t = z3.Select(z3.Select(reg, x.term), kt)
            lv[p] = z3.If(present, t, V.zero_leaf(s))
            rr = role
            if rr[0] != 'lift':
                st.leaf_fact(t, rr)
        v = Val(d['elem'], lv)
        if types.kind(d['elem']) == 'slice':
            st.slice_facts(Val(d['elem'], {p: z3.Select(z3.Select(reg, x.term), kt) for (p, s, role, kvk, reg) in vals}))
        if ins.get('commaok'):
            self.setreg(st, ins, Val(ins['type'], tuple_lv([v, scalar('bool', present)])))
        else:
            self.setreg(st, ins, Val(ins['type'], v.lv))

    def op_MapUpdate(self, st, fr, b, i, ins):
        types = self.types
        m = self.operand(st, fr, ins['map'])
        kv = self.operand(st, fr, ins['key'])
        v = self.operand(st, fr, ins['value'])
        self.panic_check(st, fr, ins, m.term != 0, 'nilmap')
        (kh, has), (kl, ln), vals, d = self.map_regions(st, m)
        kt = V.key_term(types, Val(d['key'], kv.lv), st)
        present = z3.Select(z3.Select(has, m.term), kt)
        st.heap.set(kl, z3.Store(ln, m.term, z3.Select(ln, m.term) + z3.If(present, 0, 1)))
        st.heap.set(kh, z3.Store(has, m.term, z3.Store(z3.Select(has, m.term), kt, z3.BoolVal(True))))
        if v.lv is None:
            raise OutOfSubset('storing interior pointer in map')
        self.escape(st, [v])
        for (p, s, role, kvk, reg) in vals:
            st.heap.set(kvk, z3.Store(reg, m.term, z3.Store(z3.Select(reg, m.term), kt, v.lv[p])))

    def map_delete(self, st, fr, ins, m, kv):
        types = self.types
        (kh, has), (kl, ln), vals, d = self.map_regions(st, m)
        kt = V.key_term(types, Val(d['key'], kv.lv), st)
        present = z3.And(m.term != 0, z3.Select(z3.Select(has, m.term), kt))
        st.heap.set(kl, z3.Store(ln, m.term, z3.Select(ln, m.term) - z3.If(present, 1, 0)))
        st.heap.set(kh, z3.Store(has, m.term, z3.Store(z3.Select(has, m.term), kt, z3.BoolVal(False))))

    def visited_key(self, fr, name):
        return 'visited:%d:%s' % (id(fr), name)

    def loop_may_insert(self, st, fr, h, mt):
        """can the loop with header h add entries to a map of type mt (directly or in a callee)?"""
        types = self.types
        body = fr.cfg.loops[h]
        for bi in body:
            for ins in fr.cfg.blocks[bi]['instrs']:
                op = ins['op']
                if op == 'MapUpdate':
                    if types.under(ins['map']['type']) == mt:
                        return True
                elif op in ('Call', 'Defer', 'Go'):
                    fnv = ins['call'].get('fn') or {}
                    if fnv.get('k') == 'builtin':
                        continue
                    if op == 'Go':
                        return True
                    w = self.call_writes(st, fr, ins, body)
                    if w == 'all':
                        return True
                    for (pfx, base) in w:
                        if pfx is not None and pfx[0] == 'map' and pfx[1] == mt:
                            return True
        return False

    def op_Range(self, st, fr, b, i, ins):
        x = self.operand(st, fr, ins['x'])
        self.setreg(st, ins, Val('$iter', {(): z3.IntVal(0)}, bindings=[x]))
        if self.types.kind(x.t) == 'map':
            # ghost: the set of keys this iteration has produced so far
            st.ghost[self.visited_key(fr, ins['name'])] = z3.K(z3.IntSort(), z3.BoolVal(False))

    def op_Next(self, st, fr, b, i, ins):
        types = self.types
        it = self.operand(st, fr, ins['iter'])
        x = it.bindings[0]
        tt = ins['type']
        elems = types.desc(tt)['elems']
        ok = z3.Bool(fresh_name('next_ok'))
        k = V.fresh_val(types, elems[1]['type'], 'next_k') if elems[1]['type'] != 'invalid type' else None
        vals = [scalar('bool', ok)]
        if types.kind(x.t) == 'map':
            (kh, has), (kl, ln), mv, d = self.map_regions(st, x)
            kval = V.fresh_val(types, d['key'], 'next_k')
            st.type_facts(kval)
            kt = V.key_term(types, kval, st)
            st.assume(z3.Implies(ok, z3.And(x.term != 0, z3.Select(z3.Select(has, x.term), kt))))
            gk = self.visited_key(fr, ins['iter'].get('name'))
            vis = st.ghost.get(gk)
            if vis is not None:
                # a key is produced at most once; when the iteration ends, every entry that is still
                # in the map has been produced - provided nothing is inserted while it runs (Go
                # leaves it open whether an entry added during the iteration is produced)
                st.assume(z3.Implies(ok, z3.Not(z3.Select(vis, kt))))
                if b in fr.cfg.loops and not self.loop_may_insert(st, fr, b, types.under(x.t)):
                    q = z3.Int('visited@q')
                    st.assume(z3.Implies(z3.Not(ok), z3.ForAll([q], z3.Implies(
                        z3.And(x.term != 0, z3.Select(z3.Select(has, x.term), q)), z3.Select(vis, q)))))
                    self.cx.notes.append('map iteration at block %d of %s: complete on exit (no insertion inside)' % (b, fr.fnkey))
                st.ghost[gk] = z3.If(ok, z3.Store(vis, kt, z3.BoolVal(True)), vis)
            lv = {}
            for (p, s, role, kvk, reg) in mv:
                t = z3.Select(z3.Select(reg, x.term), kt)
                lv[p] = t
                if role[0] != 'lift':
                    st.leaf_fact(t, role)
            vv = Val(d['elem'], lv)
            kv2 = Val(elems[1]['type'], kval.lv) if self.valid_type(elems[1]['type']) else None
            vv2 = Val(elems[2]['type'], vv.lv) if self.valid_type(elems[2]['type']) else None
            parts = [scalar('bool', ok), kv2, vv2]
        else:
            # string iteration
            kk = V.fresh_val(types, 'int', 'next_i')
            rr = V.fresh_val(types, 'int32', 'next_r')
            st.type_facts(kk)
            st.type_facts(rr)
            st.assume(z3.Implies(ok, z3.And(kk.term >= 0, kk.term < x.lv[('n',)])))
            parts = [scalar('bool', ok), kk if self.valid_type(elems[1]['type']) else None,
                     rr if self.valid_type(elems[2]['type']) else None]
        lv = {}
        for j, pv in enumerate(parts):
            if pv is None:
                continue
            for p, t in pv.lv.items():
                lv[('#%d' % j,) + p] = t
        self.setreg(st, ins, Val(tt, lv))

    def wrap_checked(self, raw, tk):
        """machine result of an arithmetic operation: the mathematical value when the
        quantifier-free facts of the current path already exclude overflow, otherwise the
        wrap-around term"""
        types = self.types
        rng = types.int_range(tk)
        if rng is None or ops.const_val(raw) is not None:
            return ops.wrap(types, raw, tk)
        if self.cx.in_range_now(raw, rng):
            return raw
        return ops.wrap(types, raw, tk)

    def valid_type(self, t):
        return t not in ('invalid type', '')

    def op_Defer(self, st, fr, b, i, ins):
        st.defers.append((fr, ins))

    def op_RunDefers(self, st, fr, b, i, ins):
        ds = [d for d in st.defers if d[0] is fr]
        st.defers = [d for d in st.defers if d[0] is not fr]
        return self.run_defers(st, fr, b, i, list(reversed(ds)))

    def run_defers(self, st, fr, b, i, ds):
        """run the deferred calls in order; a deferred local closure is inlined when the contract
        asks for it (`opt inline-defers yes`): on the normal path recover() returns nil, so the
        closure's body is exactly what runs before the function returns"""
        cx = self.cx
        ds = list(ds)
        while ds:
            (f2, dins) = ds.pop(0)
            call = dins['call']
            name = (call.get('fn') or {}).get('name', '')
            if name in ERASED_CALLS:
                self.cx.erased.add(name)
                continue
            fake = {'op': 'Call', 'call': call, 'name': fresh_name('defer'), 'type': '()', 'pos': dins.get('pos')}
            fnv = call.get('fn') or {}
            if cx.contract.opts.get('inline-defers') and fr is cx.top and 'invoke' not in call and fnv.get('k') == 'reg':
                fv = self.operand(st, fr, fnv)
                fnd = self.prog.funcs.get(fv.fn) if fv.fn else None
                if fnd is not None and '$' in fv.fn.split('::')[1] and self.prog.cs.funcs.get(fv.fn) is None:
                    rest = list(ds)
                    args = [self.operand(st, fr, a) for a in call['args']]

                    def cont(st2, rest=rest):
                        r = self.run_defers(st2, fr, b, i, rest)
                        if r is None:
                            cx.exec_from(st2, fr, b, i + 1)
                    return self.call_inline(st, fr, b, i, fake, fv.fn, fnd, fv.bindings or [], args, cont=cont)
            r = self.do_call(st, fr, b, i, fake, inline_ok=False)
        return None

    def op_Go(self, st, fr, b, i, ins):
        name = (ins['call'].get('fn') or {}).get('name', 'closure')
        self.cx.erased.add('go ' + name)
        st.notes.append('go statement erased: ' + name)

    def op_Send(self, st, fr, b, i, ins):
        self.cx.erased.add('channel send')

    def op_Select(self, st, fr, b, i, ins):
        raise OutOfSubset('select')

    def op_Call(self, st, fr, b, i, ins):
        return self.do_call(st, fr, b, i, ins, inline_ok=True)

    def op_MultiConvert(self, st, fr, b, i, ins):
        raise OutOfSubset('MultiConvert')

    # ------------------------------------------------------------ modifies targets
    def mod_target(self, ev, e):
        types = self.types
        st = ev.st
        if e[0] == 'call' and e[1] == ('id', 'elems') and len(e[2]) == 1:
            # elems(T): every backing array with elements of type T
            t = ev.ev(e[2][0])
            return ModTarget('region', fam='elems', tk=st.elems_tk(t.t))
        if e[0] == 'call' and e[1] == ('id', 'fields') and len(e[2]) == 2 and e[2][1][0] == 'id':
            # fields(T, f): field f of every object of struct type T
            t = ev.ev(e[2][0])
            return ModTarget('region', fam='obj', tk=types.canon(t.t), prefix=('.' + e[2][1][1],))
        if e[0] == 'slice':
            x = ev.deref_auto(ev.ev(e[1]))
            if types.kind(x.t) != 'slice':
                raise SpecError('modifies range of non-slice')
            lo = ev.int(e[2]) if e[2] is not None else z3.IntVal(0)
            hi = ev.int(e[3]) if e[3] is not None else x.lv[('l',)]
            et = types.elem(x.t)
            return ModTarget('range', sl=x, arr=x.arr, tk=st.elems_tk(et), lo=x.lv[('o',)] + lo, hi=x.lv[('o',)] + hi)
        if e[0] == 'idx':
            x = ev.deref_auto(ev.ev(e[1]))
            if types.kind(x.t) == 'map':
                kv = ev.coerce(ev.ev(e[2]), types.desc(x.t)['key'])
                return ModTarget('map', ref=x.term, tk=types.under(x.t), key=V.key_term(types, kv, st))
        if e[0] == 'id' and e[1] in getattr(self.cx, 'freevar_names', []) and ev.st.regs.get(e[1]) is not None \
                and types.kind(ev.st.regs[e[1]].t) == 'ptr':
            # a variable captured by reference: the cell it lives in
            return ModTarget('loc', loc=st.ptr_loc(ev.st.regs[e[1]]))
        if e[0] == 'deref':
            # *p: the variable p points to (for a pointer to a slice: the slice header, not the
            # elements it refers to)
            return ModTarget('loc', loc=ev.loc(e))
        try:
            v = ev.ev(e)
        except SpecError:
            v = None
        if isinstance(v, Val) and types.kind(v.t) == 'map':
            return ModTarget('map', ref=v.term, tk=types.under(v.t), key=None)
        if isinstance(v, Val) and types.kind(v.t) == 'slice' and e[0] != 'sel':
            et = types.elem(v.t)
            return ModTarget('range', sl=v, arr=v.arr, tk=st.elems_tk(et), lo=v.lv[('o',)], hi=v.lv[('o',)] + v.lv[('l',)])
        loc = ev.loc(e)
        return ModTarget('loc', loc=loc)

    def havoc_target(self, st, t, why):
        types = self.types
        if t.kind == 'loc':
            v = V.fresh_val(types, t.loc.t, why)
            st.store(t.loc, v)
            # type facts of the new content
            st.load(t.loc)
        elif t.kind == 'range':
            sl = t.sl
            et = types.elem(sl.t)
            for (p, s, role) in types.leaves(et):
                if t.arr is not None:
                    base = t.arr
                    aloc = Loc(base.fam, base.tk, base.ref, base.steps, base.t)
                    old = st.load(aloc, facts=False)
                    row = old.lv[('[]',) + p]
                else:
                    key, reg = st.region('elems', t.tk, ('[]',) + p, ('A', s))
                    row = z3.Select(reg, sl.lv[('b',)])
                new = z3.Const(fresh_name(why + '_row'), row.sort())
                k = z3.Int(fresh_name('k'))
                st.assume(z3.ForAll([k], z3.Implies(z3.Or(k < t.lo, k >= t.hi), z3.Select(new, k) == z3.Select(row, k))))
                if t.arr is not None:
                    lv = dict(old.lv)
                    lv[('[]',) + p] = new
                    st.store(aloc, Val(aloc.t, lv))
                    old = Val(aloc.t, lv)
                else:
                    st.heap.set(key, z3.Store(reg, sl.lv[('b',)], new))
        elif t.kind == 'region':
            from .calls import fresh_evid
            pre = getattr(t, 'prefix', None)
            ev = Event(fresh_evid(), lambda key, t=t, pre=pre: key[0] == t.fam and key[1] == t.tk and (not pre or key[2][:len(pre)] == pre), st.frontier, None, why)
            st.heap.havoc(ev, st.alloc0)
        elif t.kind == 'map':
            for key in list(st.heap.r.keys()):
                pass
            mt = t.tk
            d = types.get(mt)
            specs = [(('has',), ('A', 'B')), (('len',), 'I')] + [(('v',) + p, ('A', s)) for (p, s, role) in types.leaves(d['elem'])]
            for path, sd in specs:
                key, reg = st.region('map', mt, path, sd)
                newrow = z3.Const(fresh_name(why + '_map'), reg.sort().range())
                if t.key is not None and path != ('len',):
                    old = z3.Select(reg, t.ref)
                    newrow = z3.Store(old, t.key, z3.Select(newrow, t.key))
                st.heap.set(key, z3.Store(reg, t.ref, newrow))
            kl, ln = st.region('map', mt, ('len',), 'I')
            st.assume(z3.Select(ln, t.ref) >= 0)

    # ------------------------------------------------------------ loops
    def defined_outside(self, fr, o, body):
        if o is None:
            return False
        if o['k'] in ('param', 'freevar', 'global', 'const', 'func'):
            return True
        if o['k'] == 'reg':
            db = self.def_block(fr, o['name'])
            return db is not None and db not in body
        return False

    def loopinv_value(self, st, fr, o, body):
        """value of operand o if it is the same in every iteration of the loop with the given
        body: defined before the loop, or a load from a variable cell that the loop never stores to
        (variables captured by closures live in such cells)"""
        if o is None:
            return None
        if self.defined_outside(fr, o, body):
            try:
                return self.operand(st, fr, o)
            except Exception:
                return None
        if o['k'] == 'reg':
            d = self.def_instr(fr, o['name'])
            if d and d['op'] == 'UnOp' and d.get('uop') == '*' and d['x']['k'] == 'reg':
                a = self.def_instr(fr, d['x']['name'])
                if a and a['op'] == 'Alloc' and self.def_block(fr, d['x']['name']) not in body:
                    for bi in body:
                        for ins in fr.cfg.blocks[bi]['instrs']:
                            if ins['op'] == 'Store' and ins['addr'].get('name') == d['x']['name']:
                                return None
                    cell = st.regs.get(d['x']['name'])
                    if cell is None or not any(l.ref.eq(cell.term) for l in st.locals):
                        return None
                    return st.load(st.ptr_loc(cell), facts=False)
        return None

    def preloop_value(self, st, fr, o, body, reads, depth=0):
        """value at loop entry of an operand computed inside the loop by loads of fields of
        loop-invariant pointers; the regions read are recorded in `reads` (the caller must
        drop the value when the loop can write one of them)"""
        if o is None or depth > 4:
            return None
        if self.defined_outside(fr, o, body):
            try:
                return self.operand(st, fr, o)
            except Exception:
                return None
        if o['k'] != 'reg':
            return None
        d = self.def_instr(fr, o['name'])
        if d is None:
            return None
        try:
            if d['op'] == 'UnOp' and d.get('uop') == '*':
                a = self.preloop_value(st, fr, d['x'], body, reads, depth + 1)
                if a is None:
                    return None
                loc = st.ptr_loc(a)
                reads.append((loc.fam, loc.tk, loc.static_path()))
                v = st.load(loc, facts=False)
                return Val(d['type'], v.lv)
            if d['op'] == 'FieldAddr':
                x = self.preloop_value(st, fr, d['x'], body, reads, depth + 1)
                if x is None or x.lv is None:
                    return None
                base = st.ptr_loc(x)
                ft = self.types.elem(d['type'])
                loc = st.field_loc(base, d['fname'], ft)
                return Val(d['type'], {(): V.interior_handle(loc)}, loc=loc)
        except Exception:
            return None
        return None

    def def_block(self, fr, name):
        dm = getattr(fr, 'defmap', None)
        if dm is None:
            dm = {}
            for blk in fr.cfg.blocks:
                for ins in blk['instrs']:
                    if 'name' in ins:
                        dm[ins['name']] = (blk['idx'], ins)
            fr.defmap = dm
        e = dm.get(name)
        return e[0] if e else None

    def def_instr(self, fr, name):
        self.def_block(fr, name)
        e = fr.defmap.get(name)
        return e[1] if e else None

    def static_target(self, st, fr, o, body):
        """region prefix written through pointer operand o: (fam, tk, pathprefix, baseref or None)"""
        types = self.types
        steps = []
        cur = o
        while True:
            if cur['k'] == 'reg':
                ins = self.def_instr(fr, cur['name'])
                if ins is None:
                    return None
                if ins['op'] == 'FieldAddr':
                    steps.append('.' + ins['fname'])
                    cur = ins['x']
                    continue
                if ins['op'] == 'IndexAddr':
                    xt = ins['x']['type']
                    if types.kind(xt) == 'slice':
                        et = types.elem(xt)
                        base = None
                        rng = None
                        if self.defined_outside(fr, ins['x'], body):
                            sv = self.operand(st, fr, ins['x'])
                            if sv.arr is None:
                                base = sv.lv[('b',)]
                                rng = (sv.lv[('o',)], sv.lv[('o',)] + sv.lv[('l',)])
                            else:
                                a = sv.arr
                                return (a.fam, a.tk, a.static_path() + ('[]',) + tuple(reversed(steps)), a.ref)
                        return ('elems', st.elems_tk(et), ('[]',) + tuple(reversed(steps)), base, rng)
                    steps.append('[]')
                    cur = ins['x']
                    continue
                if ins['op'] == 'Alloc':
                    if self.def_block(fr, cur['name']) in body:
                        return ('fresh',)
            break
        pt = cur['type']
        if types.kind(pt) != 'ptr':
            return None
        et = types.elem(pt)
        base = None
        if self.defined_outside(fr, cur, body) and cur['k'] != 'const':
            pv = self.operand(st, fr, cur)
            if pv.lv is not None:
                base = pv.term
            elif pv.loc is not None:
                l = pv.loc
                return (l.fam, l.tk, l.static_path() + tuple(reversed(steps)), l.ref)
        k = types.kind(et)
        if k == 'struct':
            return ('obj', types.canon(et), tuple(reversed(steps)), base)
        if k == 'array':
            ee = types.elem(et)
            return ('elems', st.elems_tk(ee), tuple(reversed(steps)), base)
        return ('cell', types.under(et), tuple(reversed(steps)), base)

    def loop_writes(self, st, fr, h):
        """static write set of a loop: dict prefix -> list of base refs (None = any), or 'all'"""
        types = self.types
        body = fr.cfg.loops[h]
        writes = {}
        everything = False
        deferred = []
        self._loop_ranges = {}

        def add(pfx, base):
            if pfx is None:
                return
            if pfx[0] == 'fresh':
                return
            key = (pfx[0], pfx[1], pfx[2])
            if base is None:
                writes[key] = None
            elif key in writes:
                if writes[key] is not None:
                    writes[key].append(base)
            else:
                writes[key] = [base]
        for bi in body:
            for ins in fr.cfg.blocks[bi]['instrs']:
                op = ins['op']
                if op == 'Store':
                    t = self.static_target(st, fr, ins['addr'], body)
                    if t is None:
                        everything = True
                    else:
                        add(t, t[3] if len(t) > 3 else None)
                        if t[0] != 'fresh':
                            k3 = (t[0], t[1], t[2])
                            rr = t[4] if len(t) > 4 else None
                            cur = self._loop_ranges.get(k3, [])
                            self._loop_ranges[k3] = None if (rr is None or cur is None or t[3] is None) else cur + [(t[3], rr)]
                elif op == 'MapUpdate':
                    mt = types.under(ins['map']['type'])
                    base = None
                    if self.defined_outside(fr, ins['map'], body):
                        mv = self.operand(st, fr, ins['map'])
                        if mv.lv is not None:
                            base = mv.term
                        add(('map', mt, ()), base)
                    else:
                        deferred.append((('map', mt, ()), ins['map']))
                elif op in ('Call', 'Defer'):
                    fnv = ins['call'].get('fn') or {}
                    if fnv.get('k') == 'builtin' and fnv.get('name') in ('delete', 'clear') and \
                            types.kind(ins['call']['args'][0]['type']) == 'map':
                        a0 = ins['call']['args'][0]
                        mt = types.under(a0['type'])
                        if self.defined_outside(fr, a0, body):
                            mv = self.operand(st, fr, a0)
                            add(('map', mt, ()), mv.term if mv.lv is not None else None)
                        else:
                            deferred.append((('map', mt, ()), a0))
                        continue
                    w = self.call_writes(st, fr, ins, body)
                    if w == 'all':
                        everything = True
                    else:
                        for (pfx, base) in w:
                            add(pfx, base)
                elif op == 'Go':
                    pass
        if everything:
            return 'all'

        def written(key):
            for pk in writes:
                if key[0] == pk[0] and key[1] == pk[1] and (key[2][:len(pk[2])] == pk[2] or pk[2][:len(key[2])] == key[2]):
                    return True
            return False
        # maps reached through fields of loop-invariant objects: the same map in every
        # iteration provided the loop cannot write the field it is loaded from
        for (pfx, o) in deferred:
            reads = []
            v = self.preloop_value(st, fr, o, body, reads)
            if v is None or v.lv is None or any(written(r) for r in reads):
                add(pfx, None)
            else:
                add(pfx, v.term)
        return writes

    def havoc_loop(self, st, fr, h, phis, spec):
        types = self.types
        w = self.loop_writes(st, fr, h)
        # explicit loop modifies clause overrides the static analysis (still checked by frame at exit? no:
        # it is an assumption-free over-approximation only if it covers the static set; we use the union)
        saved = [(loc, st.load(loc, facts=False)) for loc in st.locals]
        stable = self.stable_snapshot(st, fr) if w == 'all' else []
        st.bump_frontier('loop')
        if w == 'all':
            ev = Event(fresh_evid(), lambda key: True, st.frontier, None, 'loop(all)')
            st.heap.havoc(ev, st.alloc0, opaque=False)
            # non-escaping locals not written in the loop keep their values
            body = fr.cfg.loops[h]
            for loc, v in saved:
                st.store(loc, v)
            self.restore_stable(st, stable)
            self.cx.notes.append('loop at block %d of %s havocs the whole heap (opaque call or unresolved store inside)' % (h, fr.fnkey))
        elif w:
            prefixes = dict(w)

            def match(key, prefixes=prefixes):
                for pk in prefixes:
                    if key[0] == pk[0] and key[1] == pk[1] and key[2][:len(pk[2])] == pk[2]:
                        return True
                return False
            ev = Event(fresh_evid(), match, st.frontier, prefixes, 'loop')
            st.heap.havoc(ev, st.alloc0)
        for ins in phis:
            v = V.fresh_val(types, ins['type'], 'loop_' + (ins.get('comment') or ins['name']))
            st.type_facts(v)
            st.regs[ins['name']] = v
        # map iterations advanced inside the loop: an unknown set of keys has been produced
        for bi in fr.cfg.loops[h]:
            for ins2 in fr.cfg.blocks[bi]['instrs']:
                if ins2.get('op') == 'Next' and (ins2.get('iter') or {}).get('name'):
                    gk = self.visited_key(fr, ins2['iter']['name'])
                    if gk in st.ghost:
                        st.ghost[gk] = z3.Array(fresh_name('visited'), z3.IntSort(), z3.BoolSort())
        # call counters: an unknown number of further calls may have happened
        # (only of the callees the loop body can call directly: counters count static calls made
        # in the body of the function under contract itself)
        called = set()
        if fr is self.cx.top:
            from .program import normfn
            for bi in fr.cfg.loops[h]:
                for ins2 in fr.cfg.blocks[bi]['instrs']:
                    c2 = ins2.get('call') if ins2.get('op') in ('Call', 'Defer', 'Go') else None
                    if not c2:
                        continue
                    if 'invoke' in c2:
                        called.add('invoke ' + str(c2.get('iface')) + '.' + str(c2.get('invoke')))
                    elif (c2.get('fn') or {}).get('k') == 'func':
                        called.add(normfn(c2['fn']['name']))
        anyhit = False
        for pat in self.cx.call_patterns:
            if not any(pat in nm for nm in called):
                continue
            anyhit = True
            k = 'calls:' + pat
            old = st.ghost.get(k, z3.IntVal(0))
            nv = z3.Int(fresh_name('ncalls'))
            st.assume(nv >= old)
            st.ghost[k] = nv
            ks = 'seq:' + pat
            olds = st.ghost.get(ks, z3.IntVal(0))
            ns = z3.Int(fresh_name('lastseq'))
            st.assume(ns >= olds)
            st.ghost[ks] = ns
        if anyhit:
            oldq = st.ghost.get('seqno', z3.IntVal(0))
            nq = z3.Int(fresh_name('seqno'))
            st.assume(nq >= oldq)
            for pat in self.cx.call_patterns:
                if 'seq:' + pat in st.ghost:
                    st.assume(nq >= st.ghost['seq:' + pat])
            st.ghost['seqno'] = nq

    def auto_invariants(self, st, fr, h, phis):
        """candidate bounds for counting loops; each is (name, fn(state) -> formula)"""
        out = []
        cfg = fr.cfg
        # candidate frame: memory that existed before the loop is not written by appends/fresh stores
        w = self.loop_writes(st, fr, h)
        if w != 'all':
            # stores through (bounds-checked) index expressions on slices defined before the loop
            # leave the rest of the backing array alone
            for pk, lst in (self._loop_ranges or {}).items():
                if not lst or w.get(pk) is None:
                    continue
                only_idx = all(True for _ in lst)
                for key in list(st.heap.r.keys()):
                    if key[0] == pk[0] and key[1] == pk[1] and key[2][:len(pk[2])] == pk[2]:
                        pre = st.heap.r[key]
                        sd = st.heap.sorts[key]

                        def outside(s, key=key, pre=pre, sd=sd, lst=lst):
                            cur = s.heap.get(key, sd, s.alloc0)
                            i = z3.Int('fr@i')
                            cs = []
                            for (base, (lo, hi)) in lst:
                                others = [z3.And(b2 == base, i >= l2, i < h2) for (b2, (l2, h2)) in lst]
                                cs.append(z3.ForAll([i], z3.Implies(z3.Not(z3.Or(others)),
                                                                    z3.Select(z3.Select(cur, base), i) == z3.Select(z3.Select(pre, base), i))))
                            return z3.And(cs)
                        out.append(('outside.%s' % (str(abs(hash(key)) % 100000)), outside, None))
            F = st.frontier
            for pk, refs in w.items():
                if refs is not None or pk[0] != 'elems':
                    continue
                try:
                    for (lp, ls, role) in self.types.leaves(pk[1]):
                        if (('[]',) + lp)[:len(pk[2])] == pk[2]:
                            st.region('elems', pk[1], ('[]',) + lp, ('A', ls))
                except Exception:
                    pass
                for key in list(st.heap.r.keys()):
                    if key[0] == pk[0] and key[1] == pk[1] and key[2][:len(pk[2])] == pk[2]:
                        pre = st.heap.r[key]
                        sd = st.heap.sorts[key]

                        def frame0(s, key=key, pre=pre, sd=sd):
                            cur = s.heap.get(key, sd, s.alloc0)
                            r = z3.Int('fr@r')
                            return z3.ForAll([r], z3.Implies(z3.And(r >= 0, r <= s.alloc0), z3.Select(cur, r) == z3.Select(pre, r)))
                        out.append(('oldmem0.%s' % (str(abs(hash(key)) % 100000)), frame0, {'key': key, 'pre': pre, 'F': st.alloc0}))
        body = cfg.loops[h]
        blk = cfg.blocks[h]
        for ins in phis:
            if self.types.kind(ins['type']) == 'slice':
                # accumulators built by append: no capacity yet, or storage allocated by this call
                def fresh_or_empty(s, name=ins['name']):
                    v = s.regs[name]
                    return z3.Or(v.lv[('c',)] == 0, v.lv[('b',)] > s.alloc0)
                out.append(('%s.fresh' % ins['name'], fresh_or_empty, None))
                continue
            if not self.types.is_int(ins['type']):
                continue
            name = ins['name']
            edges = ins['edges']
            preds = cfg.preds[h]
            init = None
            step = None
            for e, p in zip(edges, preds):
                if p in body:
                    if e['k'] == 'reg':
                        d = self.def_instr(fr, e['name'])
                        if d and d['op'] == 'BinOp' and d['bop'] in ('+', '-') and d['x'].get('name') == name \
                                and d['y']['k'] == 'const' and 'int' in d['y']:
                            c = int(d['y']['int'])
                            step = c if d['bop'] == '+' else -c
                        else:
                            step = 'unknown'
                    else:
                        step = 'unknown'
                else:
                    init = e
            if init is None or step in (None, 'unknown') or step == 0:
                continue
            if not self.defined_outside(fr, init, body):
                continue
            # rotated loops (range over an integer): the guard sits on the back edge, testing the
            # incremented counter; the counter itself stays strictly below the bound
            if step > 0:
                for e, p in zip(edges, preds):
                    if p not in body or e['k'] != 'reg':
                        continue
                    pins = [x for x in cfg.blocks[p]['instrs'] if x['op'] != 'DebugRef']
                    term = pins[-1] if pins else None
                    if not term or term['op'] != 'If' or term['cond']['k'] != 'reg' or cfg.succs[p][0] != h:
                        continue
                    c = self.def_instr(fr, term['cond']['name'])
                    if c and c['op'] == 'BinOp' and c['bop'] == '<' and c['x'].get('name') == e['name'] \
                            and self.defined_outside(fr, c['y'], body):
                        try:
                            bv = self.operand(st, fr, c['y']).term
                        except Exception:
                            continue

                        def below(s, name=name, bv=bv):
                            return s.regs[name].term < bv
                        out.append(('%s.below' % name, below, None))
            # find the comparison guarding the loop: in the header (for) or the block using phi+1 (range)
            bound = self.find_bound(fr, h, name, step, body)
            initv = self.operand(st, fr, init).term

            def lower(s, name=name, initv=initv, step=step):
                return (s.regs[name].term >= initv) if step > 0 else (s.regs[name].term <= initv)
            out.append(('%s.monotone' % name, lower, None))
            if bound is not None:
                kind, bo = bound
                if self.defined_outside(fr, bo, body):
                    bv = self.operand(st, fr, bo).term

                    def upper(s, name=name, bv=bv, kind=kind, initv=initv):
                        x = s.regs[name].term
                        if kind == 'lt':       # continues while x < bound
                            return x <= z3.If(bv >= initv, bv, initv)
                        if kind == 'range':    # continues while x+1 < bound
                            return x + 1 <= z3.If(bv >= initv + 1, bv, initv + 1)
                        if kind == 'le':
                            return x <= z3.If(bv + 1 >= initv, bv + 1, initv)
                        if kind == 'gt':       # continues while x > bound
                            return x >= z3.If(bv <= initv, bv, initv)
                        if kind == 'ge':
                            return x >= z3.If(bv - 1 <= initv, bv - 1, initv)
                        return z3.BoolVal(True)
                    out.append(('%s.bound' % name, upper, None))
        return out

    def find_bound(self, fr, h, name, step, body):
        cfg = fr.cfg
        blk = cfg.blocks[h]
        ins_list = [x for x in blk['instrs'] if x['op'] != 'DebugRef']
        term = ins_list[-1]
        if term['op'] != 'If' or term['cond']['k'] != 'reg':
            return None
        c = self.def_instr(fr, term['cond']['name'])
        if not c or c['op'] != 'BinOp':
            return None
        inside_first = cfg.succs[h][0] in body
        op = c['bop']
        x, y = c['x'], c['y']
        flip = {'<': '>', '>': '<', '<=': '>=', '>=': '<='}
        var = None
        # direct use of the phi
        if x.get('name') == name:
            var = 'phi'
            other = y
        elif y.get('name') == name:
            var = 'phi'
            other = x
            op = flip.get(op, op)
        else:
            # range loops compare phi+1
            for a, b2, f in ((x, y, False), (y, x, True)):
                if a['k'] == 'reg':
                    d = self.def_instr(fr, a['name'])
                    if d and d['op'] == 'BinOp' and d['bop'] == '+' and d['x'].get('name') == name and \
                            d['y']['k'] == 'const' and d['y'].get('int') == '1':
                        var = 'phi1'
                        other = b2
                        if f:
                            op = flip.get(op, op)
                        break
        if var is None:
            return None
        if not inside_first:
            op = {'<': '>=', '>=': '<', '>': '<=', '<=': '>'}.get(op, op)
        if var == 'phi1':
            return ('range', other) if op == '<' and step == 1 else None
        if step == 1 and op == '<':
            return ('lt', other)
        if step == 1 and op == '<=':
            return ('le', other)
        if step == -1 and op == '>':
            return ('gt', other)
        if step == -1 and op == '>=':
            return ('ge', other)
        return None


_evid = [0]


def fresh_evid():
    _evid[0] += 1
    return _evid[0]


def tuple_lv(vals):
    lv = {}
    for j, v in enumerate(vals):
        if v is None:
            continue
        if v.lv is None:
            raise OutOfSubset('interior pointer in tuple')
        for p, t in v.lv.items():
            lv[('#%d' % j,) + p] = t
    return lv
