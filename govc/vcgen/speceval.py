"""Evaluation of contract expressions to symbolic values."""
import z3
from .sym import I, B, Val, Loc, scalar, sort_of, fresh_name, pathstr, OutOfSubset, EngineError, MATHINT
from . import ops
from . import values as V
from .values import mathint, boolv

INT_TYPES = {'int', 'int8', 'int16', 'int32', 'int64', 'uint', 'uint8', 'uint16', 'uint32', 'uint64',
             'uintptr', 'byte', 'rune'}


STD_PKGS = {'bytes': 'bytes', 'io': 'io', 'big': 'math/big', 'errors': 'errors', 'fmt': 'fmt', 'strings': 'strings', 'sort': 'sort'}


def has_bound(t):
    """does the term mention a variable bound by a contract quantifier (named x@depth)?"""
    todo = [t]
    seen = set()
    while todo:
        x = todo.pop()
        if x.get_id() in seen:
            continue
        seen.add(x.get_id())
        if z3.is_const(x) and x.decl().kind() == z3.Z3_OP_UNINTERPRETED and '@' in x.decl().name():
            return True
        todo.extend(x.children())
    return False


def lift_ite(t, depth=0):
    """simplify, additionally turning a read of a conditional array into the conditional of the
    reads (z3's simplifier leaves Select(If(c, A, B), i) alone when both arms are stores)"""
    t = z3.simplify(t)
    if depth > 4 or not z3.is_app(t):
        return t
    if t.decl().kind() == z3.Z3_OP_SELECT:
        a = t.arg(0)
        if z3.is_app(a) and a.decl().kind() == z3.Z3_OP_ITE:
            idx = [t.arg(k) for k in range(1, t.num_args())]
            x = lift_ite(z3.Select(a.arg(1), *idx), depth + 1)
            y = lift_ite(z3.Select(a.arg(2), *idx), depth + 1)
            if x.eq(y):
                return x
            return z3.If(a.arg(0), x, y)
    return t


_SUBSEQ = {}
_CATSEQ = {}


class SpecError(Exception):
    pass


class NilV:
    t = '$nil'
    lv = {}


class TypeRef:
    def __init__(self, t):
        self.t = t


class PkgRef:
    def __init__(self, path):
        self.path = path


class Ev:
    """evaluator. st: state read for heap contents; old: state for old(); sink: state
    receiving type facts; env: name -> Val; pkg: package path for unqualified names."""

    def __init__(self, cx, st, env, pkg, old=None, imports=None, resolver=None, quant=False):
        self.cx = cx
        self.prog = cx.prog
        self.types = cx.types
        self.st = st
        self.old = old
        self.env = env
        self.pkg = pkg
        self.imports = imports or {}
        self.resolver = resolver
        self.quant = quant
        self.depth = 0

    def sub(self, **kw):
        e = Ev(self.cx, kw.get('st', self.st), kw.get('env', self.env), kw.get('pkg', self.pkg),
               kw.get('old', self.old), kw.get('imports', self.imports), kw.get('resolver', self.resolver),
               kw.get('quant', self.quant))
        e.depth = self.depth
        e.nounfold = getattr(self, 'nounfold', False)
        e.qdepth = getattr(self, 'qdepth', 0)
        e.qinfo = getattr(self, 'qinfo', None)
        e.name_st = getattr(self, 'name_st', None)
        e.prev_state = getattr(self, 'prev_state', None)
        e.last_resort = getattr(self, 'last_resort', None) if kw.get('resolver', self.resolver) is not None else None
        return e

    # -- helpers
    def facts(self):
        return not self.quant

    def load(self, loc):
        return self.st.load(loc, facts=self.facts())

    def bool(self, e):
        v = self.ev(e)
        if isinstance(v, Val) and self.types.kind(v.t) == 'bool':
            return v.term
        raise SpecError('expected bool in %r' % (e,))

    def int(self, e):
        v = self.ev(e)
        return self.as_int(v)

    def as_int(self, v):
        if isinstance(v, Val) and (v.t == MATHINT or self.types.kind(v.t) == 'int'):
            return v.term
        raise SpecError('expected integer, got %r' % (v,))

    def deref_auto(self, v):
        """auto-dereference pointers to structs/arrays for selection and indexing"""
        while isinstance(v, Val) and self.types.kind(v.t) == 'ptr':
            loc = self.st.ptr_loc(v)
            v = self.load(loc)
        return v

    def resolve_pkg(self, name):
        if name in self.imports:
            return self.imports[name]
        if name in self.prog.aliases:
            return self.prog.aliases[name]
        if name in STD_PKGS:
            return STD_PKGS[name]
        return None

    def const(self, pkg, name):
        c = self.prog.consts.get(pkg + '.' + name)
        if c is None:
            return None
        if c.get('k') == 'global':
            # package-level variable: a cell
            t = c['type']  # pointer type *T
            et = self.types.elem(t)
            ref = ops.uf('global_' + (pkg + '.' + name).replace('/', '_'), I)()
            return self.load(self.st.loc_for(et, ref))
        return self.constval(c)

    def constval(self, c):
        t = c['type']
        if 'int' in c:
            return scalar(t, z3.IntVal(int(c['int'])))
        if 'bool' in c:
            return scalar(t, z3.BoolVal(c['bool']))
        if 'str' in c:
            return self.strlit(bytes(c['str']), t)
        if c.get('nil'):
            return V.zero_val(self.types, t)
        raise SpecError('constant kind unsupported: %r' % (c,))

    def strlit(self, bs, t='string'):
        arr = z3.K(I, z3.IntVal(0))
        for i, b in enumerate(bs):
            arr = z3.Store(arr, i, z3.IntVal(b))
        return Val(t, {('s',): arr, ('n',): z3.IntVal(len(bs))})

    def typekey(self, text):
        """resolve a type text from a contract to an exported type key"""
        text = text.strip()
        pre = ''
        while True:
            if text.startswith('*'):
                pre += '*'
                text = text[1:]
            elif text.startswith('[]'):
                pre += '[]'
                text = text[2:]
            elif text.startswith('['):
                j = text.index(']')
                pre += text[:j + 1]
                text = text[j + 1:]
            else:
                break
        if text.startswith('map['):
            depth = 0
            for i, ch in enumerate(text):
                if ch == '[':
                    depth += 1
                elif ch == ']':
                    depth -= 1
                    if depth == 0:
                        base = 'map[%s]%s' % (self.typekey(text[4:i]), self.typekey(text[i + 1:]))
                        break
        elif text in INT_TYPES or text in ('bool', 'string', 'error', 'any'):
            base = text
            if text == 'byte':
                base = 'uint8'
            if text == 'rune':
                base = 'int32'
        elif '.' in text:
            a, n = text.rsplit('.', 1)
            p = self.resolve_pkg(a) or a
            base = p + '.' + n
        else:
            base = self.pkg + '.' + text
        key = pre + base
        if pre.startswith('[') and not pre.startswith('[]'):
            pass
        self.types.get(key)
        return key

    # -- main
    def ev(self, e):
        k = e[0]
        m = getattr(self, 'ev_' + k, None)
        if m is None:
            raise SpecError('unsupported expression %r' % (e,))
        return m(e)

    def ev_num(self, e):
        return mathint(e[1])

    def ev_str(self, e):
        return self.strlit(e[1])

    def ev_type(self, e):
        return TypeRef(self.typekey(e[1]))

    def ev_id(self, e):
        n = e[1]
        if n in self.env:
            v = self.env[n]
            return v() if callable(v) else v
        if n == 'true':
            return boolv(True)
        if n == 'false':
            return boolv(False)
        if n == 'nil':
            return NilV()
        if self.resolver is not None:
            v = self.resolver(n, self)
            if v is not None:
                return v
        c = self.const(self.pkg, n)
        if c is not None:
            return c
        p = self.resolve_pkg(n)
        if p is not None:
            return PkgRef(p)
        if n in INT_TYPES or n in ('bool', 'string'):
            return TypeRef(self.typekey(n))
        tk = self.pkg + '.' + n
        if tk in self.types.t:
            return TypeRef(tk)
        lr = getattr(self, 'last_resort', None)
        if lr is not None:
            v = lr(n)
            if v is not None:
                return v
        raise SpecError('unknown identifier %r' % n)

    def ev_sel(self, e):
        x = self.ev(e[1])
        name = e[2]
        if isinstance(x, PkgRef):
            c = self.const(x.path, name)
            if c is not None:
                return c
            tk = x.path + '.' + name
            if tk in self.types.t or name[:1].isupper():
                self.types.get(tk)
                return TypeRef(tk)
            raise SpecError('unknown %s.%s' % (x.path, name))
        return self.select(x, name)

    def select(self, x, name):
        types = self.types
        # ghost fields
        g = self.ghost_loc(x, name)
        if g is not None:
            v = self.load(g)
            return self.refined_ghost(x, name, v)
        if isinstance(x, Val) and types.kind(x.t) == 'ptr':
            loc = self.st.ptr_loc(x)
            if types.kind(loc.t) == 'struct':
                f = self.find_field(loc.t, name)
                if f is not None:
                    path, ft = f
                    l = loc
                    for fname, ftype in path:
                        l = self.st.field_loc(l, fname, ftype)
                    return self.load(l)
            x = self.load(loc)
            return self.select(x, name)
        if isinstance(x, Val) and types.kind(x.t) == 'struct':
            f = self.find_field(x.t, name)
            if f is None:
                raise SpecError('no field %s in %s' % (name, x.t))
            v = x
            for fname, ftype in f[0]:
                v = V.field_val(types, v, fname)
            return v
        raise SpecError('cannot select %s from %r' % (name, x))

    def refinements(self):
        out = []
        for pkg, lst in self.prog.cs.refines.items():
            for r in lst:
                out.append(r)
        return out

    def refine_types(self, r):
        sub = Ev(self.cx, self.st, {}, r['pkg'], None, r['imports'])
        return sub.typekey(r['type']), sub.typekey(r['iface'])

    def refined_ghost(self, x, name, default):
        """ghost field of an interface value: for implementations with a declared abstraction the
        field is a function of the concrete value (evaluated in the current state)"""
        if not isinstance(x, Val) or self.types.kind(x.t) != 'iface':
            return default
        res = default
        for r in self.refinements():
            if name not in r['ghosts']:
                continue
            ct, it = self.refine_types(r)
            if self.types.under(it) != self.types.under(x.t) and it != x.t:
                continue
            conc = V.unbox(self.types, x, ct)
            sub = Ev(self.cx, self.st, {r['self']: conc}, r['pkg'], self.old, r['imports'], None, self.quant)
            val = sub.ev(r['ghosts'][name])
            if isinstance(val, Val) and val.t == MATHINT and default.t != MATHINT:
                val = scalar(default.t, val.term)
            res = V.ite_val(x.lv[('t',)] == self.types.typeid(ct), Val(default.t, val.lv), res)
        return res

    def refine_spec_facts(self, sf, env, result):
        """declared meaning of an uninterpreted spec function on implementations of an interface"""
        if self.quant:
            return
        for r in self.refinements():
            for qname, (params, body) in r['specs'].items():
                nm = qname.rsplit('.', 1)[-1]
                if nm != sf.name:
                    continue
                if '.' in qname:
                    a = qname.rsplit('.', 1)[0]
                    p = r['imports'].get(a) or self.prog.aliases.get(a) or a
                    if p != sf.pkg:
                        continue
                elif r['pkg'] != sf.pkg:
                    continue
                first = env[sf.params[0][0]]
                if not isinstance(first, Val) or self.types.kind(first.t) != 'iface':
                    continue
                ct, it = self.refine_types(r)
                conc = V.unbox(self.types, first, ct)
                e2 = {r['self']: conc}
                for pn, (sn, st_) in zip(params[1:], sf.params[1:]):
                    e2[pn] = env[sn]
                sub = Ev(self.cx, self.st, e2, r['pkg'], self.old, r['imports'], None, False)
                sub.nounfold = True
                val = sub.ev(body)
                self.st.assume(z3.Implies(first.lv[('t',)] == self.types.typeid(ct), result.term == val.term))

    def find_field(self, t, name):
        """field path (through embedded structs) -> ([(fname, ftype)...], type)"""
        types = self.types
        for f in types.fields(t):
            if f['name'] == name:
                return [(name, f['type'])], f['type']
        for f in types.fields(t):
            if f.get('embedded'):
                ft = f['type']
                if types.kind(ft) == 'struct':
                    r = self.find_field(ft, name)
                    if r is not None:
                        return [(f['name'], ft)] + r[0], r[1]
        return None

    def ghost_loc(self, x, name):
        if not isinstance(x, Val):
            return None
        types = self.types
        t = x.t
        k = types.kind(t)
        cand = [t]
        if k == 'ptr':
            cand.append(types.elem(t))
        for c in cand:
            d = types.get(c)
            tn = d.get('name') if d['k'] == 'named' else c
            gs = self.prog.cs.ghosts.get(tn)
            if gs and name in gs:
                gt = self.typekey_ghost(gs[name])
                if k == 'iface':
                    ref = x.lv[('p',)]
                elif k == 'ptr':
                    ref = x.term
                else:
                    raise SpecError('ghost field on non-reference %s' % t)
                return Loc('ghost', tn + '.' + name, ref, [], gt)
        return None

    def typekey_ghost(self, text):
        if text == 'int':
            return MATHINT
        if text == 'seq':
            return 'string'
        return self.typekey(text)

    def ev_idx(self, e):
        x = self.deref_auto(self.ev(e[1]))
        types = self.types
        k = types.kind(x.t)
        if k == 'map':
            kv = self.ev(e[2])
            return self.map_get(x, kv)
        i = self.int(e[2])
        if k == 'slice':
            qi = getattr(self, 'qinfo', None)
            if qi is not None and qi['off'] is None and i.eq(qi['var']):
                qi['off'] = x.lv[('o',)]
            return self.load(self.st.elem_loc(x, i))
        if k == 'array':
            return V.index_array_val(types, x, i)
        if k == 'string':
            return scalar('uint8', z3.Select(x.lv[('s',)], i))
        raise SpecError('cannot index %s' % x.t)

    def map_get(self, m, kv):
        types = self.types
        mt = types.under(m.t)
        d = types.desc(m.t)
        kv = self.coerce(kv, d['key'])
        kt = self.key_of(kv)
        lv = {}
        for (p, s, role) in types.leaves(d['elem']):
            key, reg = self.st.region('map', mt, ('v',) + p, ('A', s))
            lv[p] = z3.Select(z3.Select(reg, m.term), kt)
        return Val(d['elem'], lv)

    def map_has(self, m, kv):
        types = self.types
        mt = types.under(m.t)
        d = types.desc(m.t)
        kv = self.coerce(kv, d['key'])
        kt = self.key_of(kv)
        key, reg = self.st.region('map', mt, ('has',), ('A', 'B'))
        present = z3.And(m.term != 0, z3.Select(z3.Select(reg, m.term), kt))
        if not self.quant:
            kl, ln = self.st.region('map', mt, ('len',), 'I')
            self.st.assume(z3.Implies(present, z3.Select(ln, m.term) >= 1))
        return present

    def map_len(self, m):
        mt = self.types.under(m.t)
        key, reg = self.st.region('map', mt, ('len',), 'I')
        return z3.Select(reg, m.term)

    def coerce(self, v, t):
        """give an untyped constant / mathint the Go type t"""
        if isinstance(v, Val) and v.t == '$key':
            if t == MATHINT:
                return mathint(v.term)
            if t is not None and self.types.kind(t) == 'int':
                return scalar(t, v.term)   # the key of an integer-keyed map is the integer itself
            return v
        if isinstance(v, NilV):
            return V.zero_val(self.types, t)
        if isinstance(v, Val) and v.t == MATHINT and self.types.kind(t) == 'int':
            return scalar(t, v.term)
        return v

    def ev_slice(self, e):
        x = self.deref_auto(self.ev(e[1]))
        types = self.types
        k = types.kind(x.t)
        lo = self.int(e[2]) if e[2] is not None else z3.IntVal(0)
        if k == 'slice':
            hi = self.int(e[3]) if e[3] is not None else x.lv[('l',)]
            lv = dict(x.lv)
            lv[('o',)] = x.lv[('o',)] + lo
            lv[('l',)] = hi - lo
            lv[('c',)] = x.lv[('c',)] - lo
            return Val(x.t, lv, arr=x.arr)
        if k == 'string':
            hi = self.int(e[3]) if e[3] is not None else x.lv[('n',)]
            return self.subseq(x.lv[('s',)], lo, hi - lo)
        raise SpecError('cannot slice %s' % x.t)

    def subseq(self, arr, off, n):
        c = ops.const_val(off)
        if c == 0:
            return Val('string', {('s',): arr, ('n',): n})
        if z3.is_app(arr) and arr.decl().kind() == z3.Z3_OP_ITE and not self.quant and getattr(self, '_subdepth', 0) < 6:
            # a view chosen between two arms: the sub-view is the same choice between the arms' sub-views
            cnd = arr.arg(0)

            def pick(t, i):
                t = lift_ite(t)
                if z3.is_app(t) and t.decl().kind() == z3.Z3_OP_ITE and t.arg(0).eq(cnd):
                    return t.arg(i)
                return t
            self._subdepth = getattr(self, '_subdepth', 0) + 1
            try:
                s1 = self.subseq(arr.arg(1), pick(off, 1), pick(n, 1))
                s2 = self.subseq(arr.arg(2), pick(off, 2), pick(n, 2))
            finally:
                self._subdepth -= 1
            return Val('string', {('s',): z3.If(cnd, s1.lv[('s',)], s2.lv[('s',)]), ('n',): z3.If(cnd, s1.lv[('n',)], s2.lv[('n',)])})
        if self.quant:
            # under a binder the offset depends on the bound variable: a function of (row,
            # offset) with its defining axiom (no new shift terms arise from instantiation)
            A = z3.ArraySort(I, I)
            f = ops.uf('seqshift', A, I, A)
            aa, oo, kk = z3.Const('shift_a', A), z3.Int('shift_o'), z3.Int('shift_k')
            self.st.assume(z3.ForAll([aa, oo, kk], z3.Select(f(aa, oo), kk) == z3.Select(aa, oo + kk),
                                     patterns=[z3.Select(f(aa, oo), kk)]))
            return Val('string', {('s',): f(arr, off), ('n',): n})
        # one name per (row, offset), in every state: two views of the same bytes are the same
        # term (the constant is a definitional extension, its axiom is assumed wherever it is used;
        # the cache keeps the terms alive so that their ids stay unique)
        offs = z3.simplify(off)
        ck = (arr.get_id(), offs.get_id())
        hit = _SUBSEQ.get(ck)
        if hit is None:
            a = z3.Const(fresh_name('sub'), z3.ArraySort(I, I))
            k = z3.Int(fresh_name('k'))
            j = z3.Int(fresh_name('j'))
            # both directions, each triggered by the read it explains: sub[k] and row[j]
            try:
                ax = z3.And(z3.ForAll([k], z3.Select(a, k) == z3.Select(arr, off + k), patterns=[z3.Select(a, k)]),
                            z3.ForAll([j], z3.Select(arr, j) == z3.Select(a, j - off), patterns=[z3.Select(arr, j)]))
            except z3.Z3Exception:
                # the row is a conditional term: not usable as a trigger
                ax = z3.ForAll([k], z3.Select(a, k) == z3.Select(arr, off + k))
            hit = _SUBSEQ[ck] = (a, arr, offs, ax)
        self.st.assume(hit[3], definitional=True)
        return Val('string', {('s',): hit[0], ('n',): n})

    def to_seq(self, x):
        """byte sequence view (type string) of a []byte / [N]byte / string"""
        types = self.types
        x = self.deref_auto(x)
        k = types.kind(x.t)
        if k == 'string':
            return x
        if k == 'slice':
            if x.arr is None:
                # a slice merged from two control-flow arms (if-then-else on its header): the view
                # is the same choice between the views of the arms, so that each arm keeps the
                # very sequence term it had before the merge
                hdr = lift_ite(x.lv[('b',)])
                if z3.is_app(hdr) and hdr.decl().kind() == z3.Z3_OP_ITE and getattr(self, '_seqdepth', 0) < 6:
                    c = hdr.arg(0)
                    slv = {p2: lift_ite(t2) for p2, t2 in x.lv.items()}

                    def arm(i):
                        lv = {}
                        for p2, t2 in slv.items():
                            if z3.is_app(t2) and t2.decl().kind() == z3.Z3_OP_ITE and t2.arg(0).eq(c):
                                lv[p2] = t2.arg(i)
                            else:
                                lv[p2] = t2
                        return Val(x.t, lv)
                    self._seqdepth = getattr(self, '_seqdepth', 0) + 1
                    try:
                        s1 = self.to_seq(arm(1))
                        s2 = self.to_seq(arm(2))
                    finally:
                        self._seqdepth -= 1
                    return Val('string', {('s',): z3.If(c, s1.lv[('s',)], s2.lv[('s',)]),
                                          ('n',): z3.If(c, s1.lv[('n',)], s2.lv[('n',)])})
            loc = self.st.elem_loc(x, z3.IntVal(0))
            # whole row
            row = self.row_of(x)
            return self.subseq(row, x.lv[('o',)], x.lv[('l',)])
        if k == 'array':
            return Val('string', {('s',): x.lv[('[]',)], ('n',): z3.IntVal(types.desc(x.t)['len'])})
        raise SpecError('no sequence view of %s' % x.t)

    def row_of(self, sl):
        """the backing row (Array Int -> leaf) of a slice of scalars"""
        st = self.st
        et = self.types.elem(sl.t)
        if sl.arr is not None:
            base = sl.arr
            loc = Loc(base.fam, base.tk, base.ref, base.steps, base.t)
            v = st.load(loc, facts=False)
            return v.lv[('[]',)]
        key, reg = st.region('elems', st.elems_tk(et), ('[]',), ('A', self.types.leaves(et)[0][1]))
        return self.select_row(reg, sl.lv[('b',)])

    def select_row(self, reg, ref, depth=0):
        """reg[ref] with the stores to other (provably different) references skipped and merges
        of arms that agree on this row collapsed: the same row keeps the same term across
        unrelated writes to the region, so that sequence views taken at different times coincide
        syntactically"""
        cx = self.cx
        q = cx.solver.qf
        n = 0
        while z3.is_app(reg) and n < 40 and not self.quant:
            k = reg.decl().kind()
            if k == z3.Z3_OP_STORE:
                r1 = reg.arg(1)
                if r1.eq(ref):
                    return reg.arg(2)
                if not cx.solver.provably_different(r1, ref):
                    break
                reg = reg.arg(0)
                n += 1
                continue
            if k == z3.Z3_OP_ITE and depth < 4:
                a = self.select_row(reg.arg(1), ref, depth + 1)
                b = self.select_row(reg.arg(2), ref, depth + 1)
                if a.eq(b):
                    return a
                return z3.If(reg.arg(0), a, b)
            break
        return z3.Select(reg, ref)

    def ev_deref(self, e):
        x = self.ev(e[1])
        if isinstance(x, TypeRef):
            self.types.get('*' + x.t)
            return TypeRef('*' + x.t)
        if isinstance(x, Val) and self.types.kind(x.t) == 'ptr':
            return self.load(self.st.ptr_loc(x))
        raise SpecError('deref of non-pointer')

    def ev_addr(self, e):
        loc = self.loc(e[1])
        pt = '*' + loc.t
        self.types.get(pt)
        if not loc.steps:
            return Val(pt, {(): loc.ref}, loc=loc)
        # pointer into the middle of an object: its handle (the same term FieldAddr produces)
        hd = V.interior_handle(loc)
        self.st.assume(z3.And(hd < 0, ops.uf('ptrbase', I, I)(hd) == loc.ref))
        return Val(pt, {(): hd}, loc=loc)

    def ev_assert(self, e):
        x = self.ev(e[1])
        t = self.ev(e[2])
        r = V.unbox(self.types, x, t.t)
        if not self.quant and self.types.kind(t.t) == 'ptr' and isinstance(x, Val) and x.lv and ('t',) in x.lv and ('p',) in x.lv:
            # a pointer held in an interface value of this state refers to an object that exists in
            # this state (allocated at or below its frontier): it is not an object allocated later
            try:
                self.st.assume(z3.Implies(x.lv[('t',)] == self.types.typeid(t.t), x.lv[('p',)] <= self.st.frontier))
            except Exception:
                pass
        return r

    def ev_un(self, e):
        op = e[1]
        if op == '!':
            return boolv(z3.Not(self.bool(e[2])))
        x = self.int(e[2])
        if op == '-':
            return mathint(-x)
        if op == '+':
            return mathint(x)
        raise SpecError('unary %s unsupported in specs' % op)

    def ev_bin(self, e):
        op = e[1]
        if op == '&&':
            return boolv(z3.And(self.bool(e[2]), self.bool(e[3])))
        if op == '||':
            return boolv(z3.Or(self.bool(e[2]), self.bool(e[3])))
        if op == '==>':
            return boolv(z3.Implies(self.bool(e[2]), self.bool(e[3])))
        if op == '<==>':
            return boolv(self.bool(e[2]) == self.bool(e[3]))
        a = self.ev(e[2])
        b = self.ev(e[3])
        if op in ('==', '!='):
            r = self.equal(a, b)
            return boolv(r if op == '==' else z3.Not(r))
        if op in ('<', '<=', '>', '>='):
            if isinstance(a, Val) and self.types.kind(a.t) == 'string':
                raise SpecError('string ordering unsupported')
            x, y = self.as_int(a), self.as_int(b)
            return boolv({'<': x < y, '<=': x <= y, '>': x > y, '>=': x >= y}[op])
        x, y = self.as_int(a), self.as_int(b)
        rt = MATHINT
        if op == '+':
            return mathint(x + y)
        if op == '-':
            return mathint(x - y)
        if op == '*':
            return mathint(x * y)
        if op == '/':
            return mathint(ops.tdiv(x, y))
        if op == '%':
            return mathint(ops.trem(x, y))
        if op in ('<<', '>>'):
            return mathint(ops.shift(self.types, op, x, y, MATHINT, None if self.quant else self.st))
        if op in ('&', '|', '^', '&^'):
            tk = a.t if a.t != MATHINT else (b.t if b.t != MATHINT else 'uint64')
            return mathint(ops.bitop(self.types, op, x, y, tk, None if self.quant else self.st))
        raise SpecError('binary %s unsupported' % op)

    def equal(self, a, b):
        if isinstance(a, NilV) and isinstance(b, NilV):
            return z3.BoolVal(True)
        if isinstance(a, NilV):
            return V.is_nil(self.types, b)
        if isinstance(b, NilV):
            return V.is_nil(self.types, a)
        if a.t == '$key' or b.t == '$key':
            ta = a.lv[()] if a.t == '$key' else self.key_of(a)
            tb = b.lv[()] if b.t == '$key' else self.key_of(b)
            return ta == tb
        if a.t == MATHINT or b.t == MATHINT:
            return self.as_int(a) == self.as_int(b)
        ka, kb = self.types.kind(a.t), self.types.kind(b.t)
        if ka == 'slice' and kb == 'slice':
            raise SpecError('slices are compared with string(a) == string(b)')
        return V.eq_vals(self.types, a, b, None if self.quant else self.st)

    def ev_lit(self, e):
        t = self.ev(e[1])
        if not isinstance(t, TypeRef):
            raise SpecError('composite literal of non-type')
        types = self.types
        if types.kind(t.t) == 'struct':
            v = V.zero_val(types, t.t)
            fs = types.fields(t.t)
            for f, a in zip(fs, e[2]):
                av = self.coerce(self.ev(a), f['type'])
                v = V.set_field_val(types, v, f['name'], av)
            return v
        if types.kind(t.t) == 'array' and not e[2]:
            return V.zero_val(types, t.t)
        raise SpecError('literal of %s unsupported' % t.t)

    # -- calls
    def ev_call(self, e):
        f = e[1]
        args = e[2]
        if f[0] == 'id':
            n = f[1]
            m = getattr(self, 'fn_' + n, None)
            if m is not None and n not in self.env:
                return m(args)
            sf = self.prog.cs.spec(self.pkg, n) or self.prog.cs.spec('stdlib', n)
            if sf is not None:
                return self.call_spec(sf, [self.ev(a) for a in args])
        if f[0] == 'sel':
            x = None
            if f[1][0] == 'id' and f[1][1] not in self.env:
                p = self.resolve_pkg(f[1][1])
                if p is not None:
                    sf = self.prog.cs.spec(p, f[2])
                    if sf is not None:
                        return self.call_spec(sf, [self.ev(a) for a in args])
            # method-call sugar: x.M(args) -> spec function M(x, args) of x's package
            try:
                x = self.ev(f[1])
            except SpecError:
                x = None
            if isinstance(x, Val):
                sf = self.method_spec(x, f[2])
                if sf is not None:
                    return self.call_spec(sf, [x] + [self.ev(a) for a in args])
        # conversion T(x)
        t = None
        try:
            t = self.ev(f)
        except SpecError:
            t = None
        if isinstance(t, TypeRef) and len(args) == 1:
            return self.convert(t.t, self.ev(args[0]))
        raise SpecError('unknown function in %r' % (e,))

    def method_spec(self, x, name):
        types = self.types
        t = x.t
        if types.kind(t) == 'ptr':
            t = types.elem(t)
        d = types.get(t)
        if d['k'] == 'named' and '.' in d['name']:
            pkg, tn = d['name'].rsplit('.', 1)
            return self.prog.cs.spec(pkg, tn + '_' + name) or self.prog.cs.spec(pkg, name)
        return None

    def convert(self, t, v):
        types = self.types
        if isinstance(v, NilV):
            return V.zero_val(types, t)
        k = types.kind(t)
        if k == 'int':
            if v.t == MATHINT or types.kind(v.t) == 'int':
                return scalar(t, v.term)   # mathematical: specs never wrap
        if k == 'string' and isinstance(v, Val):
            kv = types.kind(v.t)
            if kv in ('slice', 'array', 'string', 'ptr'):
                s = self.to_seq(v)
                return Val(t, s.lv)
        if isinstance(v, Val) and types.under(v.t) == types.under(t):
            return Val(t, v.lv, loc=v.loc, arr=v.arr)
        if isinstance(v, Val) and types.kind(v.t) == 'ptr' and k == 'ptr':
            if types.under(types.elem(v.t)) == types.under(types.elem(t)):
                return Val(t, v.lv, loc=None)
        if k == 'iface' and isinstance(v, Val):
            bx = V.box(types, v, None if self.quant else self.st)
            return Val(t, bx.lv)
        raise SpecError('conversion %s(%s) unsupported' % (t, v.t))

    def call_spec(self, sf, args):
        if self.depth > 40:
            raise SpecError('spec recursion too deep (recursive spec functions need a decreases clause): ' + sf.name)
        if len(args) != len(sf.params):
            raise SpecError('spec %s: arity' % sf.name)
        sub_types = Ev(self.cx, self.st, {}, sf.pkg, self.old, sf.imports, None, self.quant)
        env = {}
        for (pn, pt), a in zip(sf.params, args):
            if pt in ('int', 'mathint'):
                ptk = MATHINT
            elif pt == 'seq':
                ptk = 'string'
            else:
                ptk = sub_types.typekey(pt)
            a = self.coerce(a, ptk)
            if isinstance(a, Val) and a.t != MATHINT and ptk != MATHINT:
                if self.types.kind(ptk) == 'string' and self.types.kind(a.t) != 'string':
                    a = self.to_seq(a)
            env[pn] = a
        if sf.body is None or sf.decreases is not None:
            return self.call_uf_spec(sf, env)
        sub = Ev(self.cx, self.st, env, sf.pkg, self.old, sf.imports, None, self.quant)
        sub.depth = self.depth + 1
        sub.nounfold = getattr(self, 'nounfold', False)
        sub.qdepth = getattr(self, 'qdepth', 0)
        sub.qinfo = getattr(self, 'qinfo', None)
        return sub.ev(sf.body)

    def rtype_key(self, sf):
        rt = sf.rtype
        if rt in ('int', 'mathint'):
            return MATHINT
        if rt == 'seq':
            return 'string'
        return Ev(self.cx, self.st, {}, sf.pkg, None, sf.imports).typekey(rt)

    def call_uf_spec(self, sf, env):
        """uninterpreted / recursive spec function: UF over the leaves of the arguments"""
        r = self.cx.recspecs.apply(self, sf, env)
        if sf.body is None and self.prog.cs.refines:
            self.refine_spec_facts(sf, env, r)
        return r

    # -- built-in spec forms
    def fn_old(self, args):
        if self.old is None:
            raise SpecError('old() outside a postcondition')
        sub = self.sub(st=self.old.with_sink(self.st))
        # local variables of the function keep denoting their current values inside old():
        # only the heap is the old one
        sub.name_st = getattr(self, 'name_st', None) or self.st
        return sub.ev(args[0])

    def fn_prev(self, args):
        """prev(e), in a `loop k step` clause: e as it was at the loop head when the iteration that
        has just finished began (variables and memory alike)"""
        ps = getattr(self, 'prev_state', None)
        if ps is None:
            raise SpecError('prev() outside a loop step clause')
        sub = self.sub(st=ps.with_sink(self.st))
        sub.name_st = None
        sub.prev_state = None
        return sub.ev(args[0])

    def fn_len(self, args):
        x = self.deref_auto(self.ev(args[0]))
        k = self.types.kind(x.t)
        if k == 'slice':
            l = x.lv[('l',)]
            # under a binder the value is read without its type facts: lengths are never negative
            return mathint(z3.If(l < 0, z3.IntVal(0), l) if self.quant else l)
        if k == 'string':
            l = x.lv[('n',)]
            return mathint(z3.If(l < 0, z3.IntVal(0), l) if self.quant else l)
        if k == 'array':
            return mathint(self.types.desc(x.t)['len'])
        if k == 'map':
            return mathint(self.map_len(x))
        raise SpecError('len of %s' % x.t)

    def fn_cap(self, args):
        x = self.ev(args[0])
        if self.types.kind(x.t) == 'slice':
            return mathint(x.lv[('c',)])
        raise SpecError('cap of %s' % x.t)

    def quantify(self, args, univ):
        if len(args) != 4 or args[0][0] != 'id':
            raise SpecError('forall/exists(i, lo, hi, body)')
        name = args[0][1]
        lo = self.int(args[1])
        hi = self.int(args[2])
        c_lo, c_hi = ops.const_val(lo), ops.const_val(hi)
        if c_lo is not None and c_hi is not None and c_hi - c_lo <= 40:
            parts = []
            for i in range(c_lo, c_hi):
                env = dict(self.env)
                env[name] = mathint(i)
                parts.append(self.sub(env=env).bool(args[3]))
            if univ:
                return boolv(z3.And(parts) if parts else z3.BoolVal(True))
            return boolv(z3.Or(parts) if parts else z3.BoolVal(False))
        qd = getattr(self, 'qdepth', 0)
        k = z3.Int('%s@%d' % (name, qd))
        env = dict(self.env)
        env[name] = mathint(k)
        subev = self.sub(env=env, quant=True)
        subev.qdepth = qd + 1
        subev.qinfo = {'var': k, 'off': None}
        body = subev.bool(args[3])
        rng = z3.And(k >= lo, k < hi)
        off = subev.qinfo['off']
        if off is not None and ops.const_val(off) != 0:
            # quantify over the absolute index of the primary slice so that element reads are
            # select(row, a) with a bound variable (a usable trigger) instead of select(row, off+i)
            a = z3.Int('%s@%d#abs' % (name, qd))
            body = z3.simplify(z3.substitute(body, (k, a - off)), som=True)
            rng = z3.And(a >= off + lo, a < off + hi)
            k = a
        if univ:
            return boolv(z3.ForAll([k], z3.Implies(rng, body)))
        return boolv(z3.Exists([k], z3.And(rng, body)))

    def fn_forall(self, args):
        return self.quantify(args, True)

    def fn_exists(self, args):
        return self.quantify(args, False)

    def fn_implies(self, args):
        return boolv(z3.Implies(self.bool(args[0]), self.bool(args[1])))

    def fn_ite(self, args):
        c = self.bool(args[0])
        a = self.ev(args[1])
        b = self.ev(args[2])
        if isinstance(a, NilV) and isinstance(b, Val):
            a = V.zero_val(self.types, b.t)
        if isinstance(b, NilV) and isinstance(a, Val):
            b = V.zero_val(self.types, a.t)
        if a.t == MATHINT or b.t == MATHINT:
            return mathint(z3.If(c, self.as_int(a), self.as_int(b)))
        return V.ite_val(c, a, b)

    def fn_ncalls(self, args):
        """ncalls(name): how many calls whose callee name contains `name` the function under
        contract has made so far (in its own body, not in callees)"""
        if len(args) != 1 or args[0][0] not in ('id', 'str'):
            raise SpecError('ncalls(<identifier or "callee substring">)')
        pat = args[0][1]
        if isinstance(pat, bytes):
            pat = pat.decode()
        self.cx.call_patterns.add(pat)
        return mathint(self.st.ghost.get('calls:' + pat, z3.IntVal(0)))

    def fn_lastseq(self, args):
        """lastseq(name): position, in the sequence of counted calls of the function under
        contract, of its most recent call whose callee name contains `name` (0: none yet)"""
        if len(args) != 1 or args[0][0] not in ('id', 'str'):
            raise SpecError('lastseq(<identifier or "callee substring">)')
        pat = args[0][1]
        if isinstance(pat, bytes):
            pat = pat.decode()
        self.cx.call_patterns.add(pat)
        return mathint(self.st.ghost.get('seq:' + pat, z3.IntVal(0)))

    def fn_has(self, args):
        m = self.deref_auto(self.ev(args[0]))
        return boolv(self.map_has(m, self.ev(args[1])))

    def fn_is(self, args):
        x = self.ev(args[0])
        t = self.ev(args[1])
        if not isinstance(t, TypeRef):
            raise SpecError('is(x, T): T must be a type')
        return boolv(x.lv[('t',)] == self.types.typeid(t.t))

    def fn_isnil(self, args):
        return boolv(V.is_nil(self.types, self.ev(args[0])))

    def fn_min(self, args):
        a, b = self.int(args[0]), self.int(args[1])
        return mathint(z3.If(a <= b, a, b))

    def fn_max(self, args):
        a, b = self.int(args[0]), self.int(args[1])
        return mathint(z3.If(a >= b, a, b))

    def fn_abs(self, args):
        a = self.int(args[0])
        return mathint(z3.If(a >= 0, a, -a))

    def fn_mod(self, args):
        return mathint(self.int(args[0]) % self.int(args[1]))

    def fn_div(self, args):
        return mathint(self.int(args[0]) / self.int(args[1]))

    def key_of(self, v):
        """map key term of a value; under a binder the packing function's injectivity is stated
        as an axiom (outside one, as facts about the term itself)"""
        kt = V.key_term(self.types, v, None if self.quant else self.st)
        if self.quant and V.PACK_UNDER_BINDER:
            for ax in V.pack_axioms():
                try:
                    self.st.assume(ax, definitional=True)
                except TypeError:
                    self.st.assume(ax)
        return kt

    def fn_forallkeys(self, args):
        """forallkeys(m, k, body): body for every possible key k of map m (unbounded)"""
        m = self.deref_auto(self.ev(args[0]))
        if self.types.kind(m.t) != 'map' or args[1][0] != 'id':
            raise SpecError('forallkeys(map, k, body)')
        name = args[1][1]
        qd = getattr(self, 'qdepth', 0)
        k = z3.Int('%s@%d' % (name, qd))
        env = dict(self.env)
        env[name] = Val('$key', {(): k})
        subev = self.sub(env=env, quant=True)
        subev.qdepth = qd + 1
        body = subev.bool(args[2])
        # keys of an integer-keyed map are values of the key type: nothing is claimed (or known)
        # about integers outside its range
        kt = self.types.desc(self.types.under(m.t)).get('key')
        if kt is not None and self.types.kind(kt) == 'int':
            rng = self.types.int_range(kt)
            if rng is not None:
                body = z3.Implies(z3.And(k >= rng[0], k <= rng[1]), body)
        return boolv(z3.ForAll([k], body))

    def fn_visited(self, args):
        """visited(k), in an invariant of a loop that ranges over a map: the iteration has already
        produced key k"""
        vs = self.env.get('$visited')
        if vs is None:
            raise SpecError('visited() outside the invariant of a range-over-map loop')
        kv = self.coerce(self.ev(args[0]), vs.bindings[0])
        return boolv(z3.Select(vs.term, self.key_of(kv)))

    def fn_same(self, args):
        """same(a, b): identical representation (for slices: same backing array, bounds)"""
        a = self.ev(args[0])
        b = self.ev(args[1])
        if a.lv is None or b.lv is None:
            raise SpecError('same() on interior pointers')
        return boolv(z3.And([a.lv[p] == b.lv[p] for p in a.lv]))

    def fn_unchanged(self, args):
        """unchanged(x): the content designated by x (map, slice with its elements, or location)
        is the same as in the old state"""
        if self.old is None:
            raise SpecError('unchanged() outside a postcondition')
        cur = self.deref_auto(self.ev(args[0]))
        oldev = self.sub(st=self.old.with_sink(self.st))
        old = oldev.deref_auto(oldev.ev(args[0]))
        types = self.types
        k = types.kind(cur.t)
        if k == 'map':
            mt = types.under(cur.t)
            d = types.desc(cur.t)
            cs = [cur.term == old.term]
            specs = [(('has',), ('A', 'B')), (('len',), 'I')] + [(('v',) + p, ('A', s)) for (p, s, role) in types.leaves(d['elem'])]
            for path, sd in specs:
                kc, rc = self.st.region('map', mt, path, sd)
                ko, ro = self.old.region('map', mt, path, sd)
                cs.append(z3.Select(rc, cur.term) == z3.Select(ro, old.term))
            return boolv(z3.And(cs))
        if k == 'slice':
            # same header and the same backing row (stronger than element-wise equality of the
            # visible part, quantifier-free)
            cs = [cur.lv[p] == old.lv[p] for p in cur.lv]
            et = types.elem(cur.t)
            if cur.arr is not None or old.arr is not None:
                raise SpecError('unchanged() of a slice of an embedded array')
            for (lp, ls, role) in types.leaves(et):
                kc, rc = self.st.region('elems', self.st.elems_tk(et), ('[]',) + lp, ('A', ls))
                ko, ro = self.old.region('elems', self.st.elems_tk(et), ('[]',) + lp, ('A', ls))
                cs.append(z3.Select(rc, cur.lv[('b',)]) == z3.Select(ro, old.lv[('b',)]))
            return boolv(z3.And(cs))
        return boolv(z3.And([cur.lv[p] == old.lv[p] for p in cur.lv]))

    def fn_fresh(self, args):
        """fresh(p): p was allocated during the call (not reachable before)"""
        x = self.ev(args[0])
        base = self.old if self.old is not None else None
        k = self.types.kind(x.t)
        ref = x.lv[('b',)] if k == 'slice' else (x.lv[('p',)] if k == 'iface' else x.term)
        return boolv(ref > (base.frontier if base is not None else self.st.alloc0))

    def fn_seq(self, args):
        return self.to_seq(self.ev(args[0]))

    def fn_sub(self, args):
        s = self.to_seq(self.ev(args[0]))
        lo = self.int(args[1])
        hi = self.int(args[2])
        return self.subseq(s.lv[('s',)], lo, hi - lo)

    def fn_cat(self, args):
        a = self.to_seq(self.ev(args[0]))
        b = self.to_seq(self.ev(args[1]))
        if self.quant and (has_bound(a.lv[('s',)]) or has_bound(b.lv[('s',)]) or has_bound(a.lv[('n',)])):
            raise SpecError('cat of a sequence that depends on a bound variable')
        an, bn = a.lv[('n',)], b.lv[('n',)]
        ck = (a.lv[('s',)].get_id(), z3.simplify(an).get_id(), b.lv[('s',)].get_id())
        hit = _CATSEQ.get(ck)
        if hit is None:
            r = z3.Const(fresh_name('cat'), z3.ArraySort(I, I))
            k = z3.Int(fresh_name('k'))
            ax = z3.ForAll([k], z3.Select(r, k) == z3.If(k < an, z3.Select(a.lv[('s',)], k),
                                                         z3.Select(b.lv[('s',)], k - an)), patterns=[z3.Select(r, k)])
            hit = _CATSEQ[ck] = (r, ax, a.lv[('s',)], an, b.lv[('s',)])
        self.st.assume(hit[1], definitional=True)
        return Val('string', {('s',): hit[0], ('n',): an + bn})

    def fn_typeid(self, args):
        x = self.ev(args[0])
        return mathint(x.lv[('t',)])

    # -- locations (for modifies / &)
    def loc(self, e):
        k = e[0]
        types = self.types
        if k == 'deref':
            x = self.ev(e[1])
            return self.st.ptr_loc(x)
        if k == 'sel':
            x = self.ev(e[1])
            g = self.ghost_loc(x, e[2]) if isinstance(x, Val) else None
            if g is not None:
                return g
            if isinstance(x, Val) and types.kind(x.t) == 'ptr':
                base = self.st.ptr_loc(x)
            else:
                base = self.loc(e[1])
            f = self.find_field(base.t, e[2])
            if f is None:
                raise SpecError('no field %s in %s' % (e[2], base.t))
            l = base
            for fname, ftype in f[0]:
                l = self.st.field_loc(l, fname, ftype)
            return l
        if k == 'idx':
            x = self.ev(e[1])
            i = self.int(e[2])
            x = x if types.kind(x.t) != 'ptr' else None
            if x is not None and types.kind(x.t) == 'slice':
                return self.st.elem_loc(x, i)
            base = self.loc(e[1]) if x is None else None
            if base is not None and types.kind(base.t) == 'array':
                return self.st.array_elem_loc(base, i)
            raise SpecError('location of index expression unsupported')
        if k == 'id':
            # a local variable whose address is taken: the cell it lives in
            ra = getattr(self.cx, 'resolve_addr', None)
            if ra is not None and self.resolver is not None:
                l = ra(getattr(self, 'name_st', None) or self.st, e[1])
                if l is not None:
                    return l
            v = self.ev(e)
            if isinstance(v, Val) and types.kind(v.t) == 'ptr':
                return self.st.ptr_loc(v)
        raise SpecError('not a location: %r' % (e,))
