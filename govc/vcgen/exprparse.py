"""Parser for contract expressions (Go expression syntax + a few call forms).

AST nodes are tuples:
  ('num', int) ('str', bytes) ('id', name) ('sel', x, name) ('idx', x, i)
  ('slice', x, lo, hi) ('call', f, [args]) ('un', op, x) ('bin', op, x, y)
  ('deref', x) ('addr', x) ('assert', x, typeexpr) ('type', text) ('lit', typeexpr, [elts])
Type expressions appearing as conversion heads or in is()/x.(T) are kept as
('type', text) when they cannot be an ordinary expression.
"""
import re

TOK = re.compile(r"""
  (?P<ws>\s+)
 |(?P<num>0[xX][0-9a-fA-F_]+|0[bB][01_]+|\d[\d_]*)
 |(?P<str>"(?:[^"\\]|\\.)*")
 |(?P<chr>'(?:[^'\\]|\\.)')
 |(?P<id>[A-Za-z_$][A-Za-z0-9_$]*)
 |(?P<op>==>|<==>|&\^|&&|\|\||==|!=|<=|>=|<<|>>|[-+*/%&|^<>!().,\[\]:{}])
""", re.X)


class ParseError(Exception):
    pass


def tokenize(s):
    out = []
    i = 0
    while i < len(s):
        m = TOK.match(s, i)
        if not m:
            raise ParseError("bad char %r at %d in %r" % (s[i], i, s))
        i = m.end()
        k = m.lastgroup
        if k == 'ws':
            continue
        out.append((k, m.group(k)))
    out.append(('eof', ''))
    return out


BINPREC = {
    '<==>': 0, '==>': 1, '||': 2, '&&': 3,
    '==': 4, '!=': 4, '<': 4, '<=': 4, '>': 4, '>=': 4,
    '+': 5, '-': 5, '|': 5, '^': 5,
    '*': 6, '/': 6, '%': 6, '<<': 6, '>>': 6, '&': 6, '&^': 6,
}


class Parser:
    def __init__(self, s):
        self.s = s
        self.t = tokenize(s)
        self.i = 0

    def peek(self):
        return self.t[self.i]

    def next(self):
        x = self.t[self.i]
        self.i += 1
        return x

    def accept(self, v):
        if self.t[self.i][1] == v and self.t[self.i][0] in ('op',):
            self.i += 1
            return True
        return False

    def expect(self, v):
        if not self.accept(v):
            raise ParseError("expected %r at token %d (%r) in %r" % (v, self.i, self.t[self.i], self.s))

    def parse(self):
        e = self.expr(0)
        if self.peek()[0] != 'eof':
            raise ParseError("trailing tokens %r in %r" % (self.t[self.i:], self.s))
        return e

    def expr(self, minprec):
        lhs = self.unary()
        while True:
            k, v = self.peek()
            if k != 'op' or v not in BINPREC:
                break
            p = BINPREC[v]
            if p < minprec:
                break
            self.next()
            if v == '==>':  # right assoc
                rhs = self.expr(p)
            else:
                rhs = self.expr(p + 1)
            lhs = ('bin', v, lhs, rhs)
        return lhs

    def unary(self):
        k, v = self.peek()
        if k == 'op' and v in ('!', '-', '+', '^'):
            self.next()
            return ('un', v, self.unary())
        if k == 'op' and v == '*':
            self.next()
            return ('deref', self.unary())
        if k == 'op' and v == '&':
            self.next()
            return ('addr', self.unary())
        return self.postfix(self.primary())

    def typeexpr(self):
        """parse a type used inside is(x, T), x.(T), conversions: returns ('type', text)"""
        start = self.i
        # consume *, [], [N], map[..], qualified identifiers
        depth = 0
        while True:
            k, v = self.peek()
            if k == 'op' and v in ('*',):
                self.next()
            elif k == 'op' and v == '[':
                self.next()
                while not self.accept(']'):
                    self.next()
            elif k == 'id':
                self.next()
                if self.peek() == ('op', '.') and self.t[self.i + 1][0] == 'id':
                    self.next()
                    self.next()
                break
            else:
                raise ParseError("bad type at %r in %r" % (self.peek(), self.s))
        txt = ''.join(v for _, v in self.t[start:self.i])
        return ('type', txt)

    def primary(self):
        k, v = self.next()
        if k == 'num':
            return ('num', int(v.replace('_', ''), 0))
        if k == 'str':
            return ('str', bytes(eval(v), 'latin1') if True else b'')
        if k == 'chr':
            return ('num', ord(eval(v)))
        if k == 'id':
            return ('id', v)
        if k == 'op' and v == '(':
            # parenthesised expr or parenthesised type like (*T)(x)
            save = self.i
            try:
                e = self.expr(0)
                self.expect(')')
                return e
            except ParseError:
                self.i = save
                t = self.typeexpr()
                self.expect(')')
                return t
        if k == 'op' and v == '[':
            # slice/array type conversion: []byte(x)
            self.i -= 1
            return self.typeexpr()
        raise ParseError("unexpected %r in %r" % ((k, v), self.s))

    def postfix(self, e):
        while True:
            k, v = self.peek()
            if k == 'op' and v == '.':
                self.next()
                if self.accept('('):
                    t = self.typeexpr()
                    self.expect(')')
                    e = ('assert', e, t)
                    continue
                k2, v2 = self.next()
                if k2 != 'id':
                    raise ParseError("selector expected in %r" % self.s)
                e = ('sel', e, v2)
            elif k == 'op' and v == '[':
                self.next()
                lo = hi = None
                if self.peek() == ('op', ':'):
                    self.next()
                    if self.peek() != ('op', ']'):
                        hi = self.expr(0)
                    self.expect(']')
                    e = ('slice', e, None, hi)
                    continue
                lo = self.expr(0)
                if self.accept(':'):
                    if self.peek() != ('op', ']'):
                        hi = self.expr(0)
                    self.expect(']')
                    e = ('slice', e, lo, hi)
                else:
                    self.expect(']')
                    e = ('idx', e, lo)
            elif k == 'op' and v == '(':
                self.next()
                args = []
                while not self.accept(')'):
                    # allow a type as an argument (is(x, *T))
                    save = self.i
                    try:
                        a = self.expr(0)
                        if self.peek()[1] not in (',', ')'):
                            raise ParseError('x')
                    except ParseError:
                        self.i = save
                        a = self.typeexpr()
                    args.append(a)
                    if not self.accept(','):
                        self.expect(')')
                        break
                e = ('call', e, args)
            elif k == 'op' and v == '{' and e[0] in ('id', 'sel', 'type'):
                # composite literal T{a, b}
                self.next()
                elts = []
                while not self.accept('}'):
                    elts.append(self.expr(0))
                    if not self.accept(','):
                        self.expect('}')
                        break
                e = ('lit', e, elts)
            else:
                return e


def parse(s):
    return Parser(s).parse()


def unparse(e):
    k = e[0]
    if k == 'num':
        return str(e[1])
    if k == 'str':
        return repr(e[1])
    if k == 'id':
        return e[1]
    if k == 'type':
        return e[1]
    if k == 'sel':
        return unparse(e[1]) + '.' + e[2]
    if k == 'idx':
        return '%s[%s]' % (unparse(e[1]), unparse(e[2]))
    if k == 'slice':
        return '%s[%s:%s]' % (unparse(e[1]), unparse(e[2]) if e[2] else '', unparse(e[3]) if e[3] else '')
    if k == 'call':
        return '%s(%s)' % (unparse(e[1]), ', '.join(unparse(a) for a in e[2]))
    if k == 'un':
        return e[1] + unparse(e[2])
    if k == 'bin':
        return '(%s %s %s)' % (unparse(e[2]), e[1], unparse(e[3]))
    if k == 'deref':
        return '*' + unparse(e[1])
    if k == 'addr':
        return '&' + unparse(e[1])
    if k == 'assert':
        return '%s.(%s)' % (unparse(e[1]), unparse(e[2]))
    if k == 'lit':
        return '%s{%s}' % (unparse(e[1]), ', '.join(unparse(a) for a in e[2]))
    return repr(e)


if __name__ == '__main__':
    import sys
    for s in sys.argv[1:]:
        print(parse(s))
