"""Program container: exported SSA + contracts; CFG analyses."""
import json
import os
import subprocess
import glob
from .sym import Types
from . import contracts as C

HERE = os.path.dirname(os.path.abspath(__file__))
GOVC = os.path.dirname(HERE)
MOD = 'github.com/nspcc-dev/neo-go'


def normfn(name):
    """generic instances are printed with byte or uint8 depending on alias tracking: normalise"""
    if '[' not in name:
        return name
    import re
    head, br, tail = name.partition('[')
    tail = re.sub(r'\bbyte\b', 'uint8', tail)
    tail = re.sub(r'\brune\b', 'int32', tail)
    return head + br + tail


class Program:
    def __init__(self):
        self.funcs = {}
        self.sigs = {}
        self.consts = {}
        self.types = Types({})
        self.cs = C.ContractSet()
        self.aliases = {}

    def add_export(self, d):
        self.funcs.update({normfn(k): v for k, v in d['funcs'].items()})
        self.sigs.update({normfn(k): v for k, v in d['sigs'].items()})
        self.consts.update(d['consts'])
        self.types.add(d['types'])

    def build_aliases(self):
        cnt = {}
        for k in self.consts:
            pkg = k.rsplit('.', 1)[0]
            a = pkg.rsplit('/', 1)[-1]
            cnt.setdefault(a, set()).add(pkg)
        for k in self.types.t:
            d = self.types.t[k]
            if d.get('k') == 'named' and '.' in d['name'] and '[' not in d['name']:
                pkg = d['name'].rsplit('.', 1)[0]
                a = pkg.rsplit('/', 1)[-1]
                cnt.setdefault(a, set()).add(pkg)
        for (pkg, name) in self.cs.specs:
            cnt.setdefault(pkg.rsplit('/', 1)[-1], set()).add(pkg)
        for k, c in self.cs.funcs.items():
            cnt.setdefault(c.pkg.rsplit('/', 1)[-1], set()).add(c.pkg)
        self.aliases = {}
        for a, s in cnt.items():
            if len(s) == 1:
                self.aliases[a] = list(s)[0]
            else:
                # prefer the shortest neo-go path, else stdlib
                self.aliases[a] = sorted(s, key=lambda p: (not p.startswith(MOD), len(p)))[0]


def contract_files(repo='/repo'):
    fs = sorted(glob.glob(os.path.join(repo, 'pkg', '**', 'verif_contracts*.go'), recursive=True))
    fs += sorted(glob.glob(os.path.join(repo, 'internal', '**', 'verif_contracts*.go'), recursive=True))
    return fs


def stdlib_contract_files():
    return sorted(glob.glob(os.path.join(GOVC, 'stdlib_contracts', '*.go')))


def load_contracts(repo='/repo'):
    cs = C.ContractSet()
    for p in stdlib_contract_files():
        C.parse_file(p, cs, repo, default_pkg='stdlib')
    for p in contract_files(repo):
        C.parse_file(p, cs, repo)
    return cs


def export(funcs, repo='/repo', out=None, tags='verif'):
    """run ssaexport for the given function keys; returns parsed JSON"""
    funcs = sorted({k.split('#')[0] for k in funcs})
    pkgs = sorted({k.split('::')[0] for k in funcs})
    exe = os.path.join(GOVC, 'bin', 'ssaexport')
    env = dict(os.environ)
    env['GOFLAGS'] = '-mod=mod'
    env['GOPROXY'] = 'off'
    env.pop('GOTOOLCHAIN', None)
    env.pop('GOSUMDB', None)
    import tempfile
    with tempfile.NamedTemporaryFile('w', suffix='.txt', delete=False) as f:
        f.write('\n'.join(sorted(funcs)))
        ff = f.name
    outp = out or tempfile.mktemp(suffix='.json')
    try:
        p = subprocess.run([exe, '-tags', tags, '-dir', repo, '-funcs-file', ff, '-out', outp] + pkgs,
                           env=env, capture_output=True, text=True)
        if p.returncode != 0:
            raise RuntimeError('ssaexport failed (%d): %s' % (p.returncode, p.stderr[-4000:]))
        with open(outp) as f:
            return json.load(f)
    finally:
        os.unlink(ff)
        if out is None and os.path.exists(outp):
            os.unlink(outp)


# ---------------------------------------------------------------- CFG analyses

class CFG:
    def __init__(self, fn):
        self.fn = fn
        self.blocks = fn['blocks']
        n = len(self.blocks)
        self.n = n
        self.succs = [b.get('succs') or [] for b in self.blocks]
        self.preds = [b.get('preds') or [] for b in self.blocks]
        self.compute_doms()
        self.compute_loops()
        self.compute_ipdom()

    def compute_doms(self):
        n = self.n
        full = set(range(n))
        dom = [set(full) for _ in range(n)]
        dom[0] = {0}
        changed = True
        # reachable blocks only
        while changed:
            changed = False
            for b in range(1, n):
                ps = self.preds[b]
                if not ps:
                    new = {b}
                else:
                    new = set(full)
                    for p in ps:
                        new &= dom[p]
                    new |= {b}
                if new != dom[b]:
                    dom[b] = new
                    changed = True
        self.dom = dom

    def dominates(self, a, b):
        return a in self.dom[b]

    def compute_loops(self):
        """natural loops: header -> set of body blocks; ordinal by header block index"""
        loops = {}
        for b in range(self.n):
            for s in self.succs[b]:
                if self.dominates(s, b):  # back edge b -> s
                    body = loops.setdefault(s, {s})
                    stack = [b]
                    while stack:
                        x = stack.pop()
                        if x not in body:
                            body.add(x)
                            stack.extend(self.preds[x])
        self.loops = loops
        self.headers = sorted(loops.keys())
        self.ordinal = {h: i for i, h in enumerate(self.headers)}

    def compute_ipdom(self):
        """immediate post-dominators (virtual exit = -1); ipdom[b] is None when it is the exit"""
        n = self.n
        EXIT = n
        # Early exits do not count: a successor from which every path leaves the function without
        # branching back (an error return, a panic) is dropped where its sibling goes on, so that
        # `if err != nil { return err }` inside a conditional does not hide the conditional's join.
        # An arm that takes such an exit simply never reaches the join and ends on its own.
        exitonly = [False] * n
        changed = True
        while changed:
            changed = False
            for b in range(n):
                if exitonly[b]:
                    continue
                ss = self.succs[b]
                if (not ss) or all(exitonly[x] for x in ss):
                    if not any(b in body for body in self.loops.values()):
                        exitonly[b] = True
                        changed = True
        self.exitonly = exitonly
        succs = []
        dropped = {}
        for b in range(n):
            ss = list(self.succs[b])
            if not ss:
                succs.append([EXIT])
                continue
            keep = [x for x in ss if not exitonly[x]] if os.environ.get('VCGEN_EARLY_EXIT', '1') == '1' else ss
            if keep and len(keep) < len(ss):
                dropped[b] = ss
            succs.append(keep if keep else ss)
        succs.append([])
        # the function's own tail is exit-only as well: put an edge back wherever dropping it
        # leaves a block that cannot reach the exit any more
        while True:
            reach = {EXIT}
            grew = True
            while grew:
                grew = False
                for b in range(n):
                    if b not in reach and any(x in reach for x in succs[b]):
                        reach.add(b)
                        grew = True
            bad = [b for b in dropped if b not in reach]
            if not bad:
                break
            # the deepest one first (block order follows the source): the others usually reach
            # the exit through it
            b = max(bad)
            succs[b] = dropped.pop(b)
        full = set(range(n + 1))
        pdom = [set(full) for _ in range(n + 1)]
        pdom[EXIT] = {EXIT}
        changed = True
        while changed:
            changed = False
            for b in range(n - 1, -1, -1):
                new = set(full)
                for s in succs[b]:
                    new &= pdom[s]
                new |= {b}
                if new != pdom[b]:
                    pdom[b] = new
                    changed = True
        self.ipdom = {}
        for b in range(n):
            cands = pdom[b] - {b}
            best = None
            for c in cands:
                # immediate: the candidate that is post-dominated by all other candidates
                if all((o == c) or (o in pdom[c]) for o in cands):
                    best = c
                    break
            self.ipdom[b] = None if best is None or best == EXIT else best

    def uses_from(self, b):
        """names of registers read in blocks reachable from b (liveness approximation)"""
        cache = getattr(self, '_uses_from', None)
        if cache is None:
            cache = self._uses_from = {}
        if b in cache:
            return cache[b]
        seen = set()
        stack = [b]
        while stack:
            x = stack.pop()
            if x in seen:
                continue
            seen.add(x)
            stack.extend(self.succs[x])
        used = set()

        def walk(v):
            if isinstance(v, dict):
                if v.get('k') in ('reg', 'param', 'freevar') and 'name' in v:
                    used.add(v['name'])
                for vv in v.values():
                    walk(vv)
            elif isinstance(v, list):
                for vv in v:
                    walk(vv)
        for x in seen:
            for ins in self.blocks[x]['instrs']:
                for k, v in ins.items():
                    if k in ('name', 'type', 'pos'):
                        continue
                    walk(v)
        cache[b] = used
        return used

    def innermost_loop(self, b):
        best = None
        for h, body in self.loops.items():
            if b in body:
                if best is None or len(body) < len(self.loops[best]):
                    best = h
        return best
