"""Developer entry: verify single functions and print the obligations."""
import sys, time, argparse, json
from . import program as P
from .engine import verify_function, Opts


def load_program(funcs, repo='/repo'):
    prog = P.Program()
    prog.cs = P.load_contracts(repo)
    d = P.export(funcs, repo)
    prog.add_export(d)
    prog.build_aliases()
    return prog, d.get('missing') or []


def main():
    ap = argparse.ArgumentParser()
    ap.add_argument('funcs', nargs='*')
    ap.add_argument('--pkg', default=None)
    ap.add_argument('-v', action='store_true')
    ap.add_argument('--race', action='store_true', help='second stage on undischarged obligations (solver race), SMT-LIB text kept in /tmp')
    a = ap.parse_args()
    cs = P.load_contracts()
    funcs = a.funcs
    if a.pkg:
        funcs = [k for k, c in cs.funcs.items() if k.startswith(a.pkg + '::') and not c.assumed and not c.is_iface and not c.inline and not getattr(c, 'has_cases', False)]
    t0 = time.time()
    inl = [k for k, c in cs.funcs.items() if c.inline]
    prog, missing = load_program(list(funcs) + inl)
    print('export %.1fs missing=%s' % (time.time() - t0, missing))
    for f in funcs:
        if f.split('#')[0] not in prog.funcs:
            print('MISSING', f)
            continue
        t1 = time.time()
        cx = verify_function(prog, f, Opts())
        print('== %s  paths=%d infeasible_ends=%d  %.2fs  pre=%s' % (f, cx.npaths, cx.infeasible_ends, time.time() - t1, getattr(cx, 'pre_sat', '?')))
        agg = {}
        for r in cx.results:
            agg.setdefault(r.name, []).append(r)
        for n, rs in agg.items():
            st = 'discharged' if all(r.status == 'discharged' for r in rs) else '/'.join(sorted({r.status for r in rs}))
            print('   %-70s %s x%d %.2fs' % (n, st, len(rs), sum(r.seconds for r in rs)))
            for r in rs:
                if r.status != 'discharged':
                    print('       ', r.status, r.note, r.text, getattr(r, 'inputs', None), str(getattr(r, 'trace', None))[:200])
                    if a.race and r.query is not None:
                        from . import solve
                        import re
                        smt2 = solve.to_smt2(r.query[0], r.query[1])
                        fn = '/tmp/vc_%s.smt2' % re.sub(r'[^A-Za-z0-9]+', '_', n)[-80:]
                        open(fn, 'w').write(smt2)
                        verdict, who, secs, outs = solve.race(smt2, 20, need_agree=False)
                        print('        stage2: %s by %s in %.1fs (%d bytes, %s)' % (verdict, who, secs, len(smt2), fn))
                        import z3
                        g = r.query[1]
                        parts = list(g.children()) if (z3.is_app(g) and g.decl().kind() == z3.Z3_OP_AND) else [g]
                        for pi, pg in enumerate(parts):
                            sv = z3.Solver(); sv.set('timeout', 5000)
                            for x in r.query[0]:
                                sv.add(x)
                            sv.add(z3.Not(pg))
                            print('          conjunct %d: %s   %s' % (pi, sv.check(), str(pg).replace('\n', ' ')[:160]))
                    break
        unc = cx.uncovered_blocks()
        if unc: print('   UNCOVERED:', unc)
        if cx.notes: print('   notes:', cx.notes)
        if cx.opaque_calls: print('   opaque:', sorted(cx.opaque_calls))
        if cx.assumed_used: print('   assumed:', sorted(cx.assumed_used))


if __name__ == '__main__':
    main()
