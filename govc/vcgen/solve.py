"""Second-stage discharge: race z3 5.1.0 (z3-new), z3 4.8.12 and cvc5 1.0 on SMT-LIB2 text;
candidate counterexamples from a quantifier-free relaxation."""
import os
import subprocess
import tempfile
import time
import threading
import shutil
import z3

SOLVERS = [
    ('z3-5.1.0', ['z3-new', '-smt2']),
    ('z3-4.8.12', ['/usr/bin/z3', '-smt2']),
    ('cvc5-1.0', ['cvc5', '--lang=smt2', '--incremental']),
]


def to_smt2(assumptions, goal):
    s = z3.Solver()
    for a in assumptions:
        s.add(a)
    s.add(z3.Not(goal))
    # region names carry '|', which z3 prints escaped inside |quoted| symbols; cvc5 rejects that
    return s.to_smt2().replace('\\|', '!')


_QF_IDS = set()


def has_quantifier(e, seen=None):
    """does the term contain a quantifier? Quantifier-free subterms are remembered globally
    (terms share most of their structure along a path)."""
    todo = [e]
    visited = []
    local = set()
    while todo:
        x = todo.pop()
        i = x.get_id()
        if i in _QF_IDS or i in local:
            continue
        local.add(i)
        if z3.is_quantifier(x):
            return True
        visited.append(i)
        todo.extend(x.children())
    _QF_IDS.update(visited)
    return False


def race(smt2, timeout_s, solvers=None, need_agree=False):
    """run the external solvers concurrently; returns (verdict, solver, seconds, outputs)"""
    solvers = solvers or SOLVERS
    d = tempfile.mkdtemp(prefix='govc_')
    t0 = time.time()
    outs = {}
    procs = {}
    try:
        for name, cmd in solvers:
            path = os.path.join(d, name + '.smt2')
            text = smt2
            if name.startswith('cvc5'):
                text = '(set-logic ALL)\n' + smt2
            with open(path, 'w') as f:
                f.write(text)
            if not shutil.which(cmd[0]):
                continue
            extra = []
            if name.startswith('z3'):
                extra = ['-T:%d' % max(1, int(timeout_s))]
            else:
                extra = ['--tlimit=%d' % int(timeout_s * 1000)]
            procs[name] = subprocess.Popen(cmd + extra + [path], stdout=subprocess.PIPE, stderr=subprocess.STDOUT, text=True)
        verdict, who = 'unknown', ''
        pending = dict(procs)
        sat_by = None
        while pending and time.time() - t0 < timeout_s + 2:
            for name, p in list(pending.items()):
                if p.poll() is not None:
                    out = p.stdout.read()
                    outs[name] = out[:2000]
                    del pending[name]
                    first = out.strip().split('\n')[0].strip() if out.strip() else ''
                    if first == 'unsat' and verdict != 'unsat':
                        verdict, who = 'unsat', name
                        if not need_agree:
                            pending_kill(pending)
                            pending = {}
                            break
                    elif first == 'sat':
                        sat_by = name
                        if verdict != 'unsat' and not need_agree:
                            verdict, who = 'sat', name
                            pending_kill(pending)
                            pending = {}
                            break
            time.sleep(0.01)
        pending_kill(pending)
        if need_agree and sat_by and verdict == 'unsat':
            return 'disagree', sat_by + ' vs ' + who, time.time() - t0, outs
        if need_agree and sat_by and verdict != 'unsat':
            verdict, who = 'sat', sat_by
        return verdict, who, time.time() - t0, outs
    finally:
        shutil.rmtree(d, ignore_errors=True)


def pending_kill(pending):
    for p in pending.values():
        try:
            p.kill()
        except Exception:
            pass


def relaxed_model(assumptions, goal, timeout_ms=5000):
    """model of the quantifier-free part of the query (a candidate counterexample only)"""
    s = z3.Solver()
    s.set('timeout', timeout_ms)
    for a in assumptions:
        if not has_quantifier(a):
            s.add(a)
    ng = z3.Not(goal)
    if not has_quantifier(ng):
        s.add(ng)
    else:
        return None, 'goal quantified'
    r = s.check()
    if r == z3.sat:
        return s.model(), 'relaxed'
    return None, str(r)
