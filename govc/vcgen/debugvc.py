"""Developer aid: which assumptions does an undischarged VC need / which ones make it hard?
usage: python -m vcgen.debugvc file.smt2 [timeout_ms]"""
import sys, time, z3


def has_q(f):
    todo = [f]; seen = set()
    while todo:
        x = todo.pop()
        if x.get_id() in seen: continue
        seen.add(x.get_id())
        if z3.is_quantifier(x): return True
        todo.extend(x.children())
    return False


def main():
    fn = sys.argv[1]
    to = int(sys.argv[2]) if len(sys.argv) > 2 else 5000
    fs = z3.parse_smt2_file(fn)
    qf = [f for f in fs if not has_q(f)]
    q = [f for f in fs if has_q(f)]
    print('%d assertions, %d quantified' % (len(fs), len(q)))

    def chk(lst):
        s = z3.Solver(); s.set('timeout', to)
        for f in lst: s.add(f)
        t0 = time.time(); r = s.check()
        return str(r), time.time() - t0
    print('all:', chk(fs))
    print('qf only:', chk(qf))
    for i, f in enumerate(q):
        r = chk(qf + q[:i] + q[i + 1:])
        print('without q%d: %s %.1fs   %s' % (i, r[0], r[1], str(f).replace('\n', ' ')[:150]))


main()
