//go:build ignore

// Assumed value semantics of math/big.Int: the mathematical value of an Int is the ghost field v
// (a field, not a function of the pointer, because the methods write their receiver).
// Every method below is the documented behaviour of math/big; none is verified here.
package stdlib_contracts

//@ package math/big
//@ ghost Int.v int zero

// powers and roots are uninterpreted; the facts about them a proof may use are stated where
// they are returned (sign of a power, definition of the integer square root)
//@ spec ipow(b int, e int) int
// truncated division (T-division): uninterpreted, characterised wherever a contract returns it by
//   a == b*tquo(a,b) + trem(a,b),  |trem(a,b)| < |b|,  trem(a,b) is zero or has the sign of a
//@ spec tquo(a int, b int) int
//@ spec trem(a int, b int) int
// (the defining equation a == b*tquo(a,b) + trem(a,b) is left out of the facts handed to the solver:
// it is nonlinear and no obligation here needs it; what is used is the range and sign of the remainder)
//@ spec tdivfacts(a int, b int) bool = abs(trem(a, b)) < abs(b) && (a >= 0 ==> trem(a, b) >= 0) && (a <= 0 ==> trem(a, b) <= 0)
// imul(a, b) is a*b: the product under a name, so that a goal about "the same product" is settled
// by congruence; the Mul contract states imul(a, b) == a*b
//@ spec imul(a int, b int) int
//@ spec in256(x int) bool = -two255() <= x && x < two255()
//@ spec bitand(a int, b int) int
//@ spec bitor(a int, b int) int
//@ spec bitxor(a int, b int) int
//@ spec two255() int = 57896044618658097711785492504343953926634992332820282019728792003956564819968
//@ spec two256() int = 115792089237316195423570985008687907853269984665640564039457584007913129639936
//@ spec pow2(n int) int

//@ func NewInt
//@ assumed
//@ pure
//@ ensures result != nil && fresh(result) && result.v == x

//@ func (*Int).Add
//@ assumed
//@ requires[nopanic] z != nil && x != nil && y != nil
//@ modifies z.v
//@ ensures z.v == old(x.v) + old(y.v) && result == z

//@ func (*Int).Sub
//@ assumed
//@ requires[nopanic] z != nil && x != nil && y != nil
//@ modifies z.v
//@ ensures z.v == old(x.v) - old(y.v) && result == z

//@ func (*Int).Mul
//@ assumed
//@ requires[nopanic] z != nil && x != nil && y != nil
//@ modifies z.v
//@ ensures z.v == old(x.v) * old(y.v) && imul(old(x.v), old(y.v)) == old(x.v) * old(y.v) && result == z

// Quo and Rem: truncated division (T-division), panic on a zero divisor
//@ func (*Int).Quo
//@ assumed
//@ requires[nopanic] z != nil && x != nil && y != nil && y.v != 0
//@ modifies z.v
//@ ensures z.v == tquo(old(x.v), old(y.v)) && result == z && tdivfacts(old(x.v), old(y.v))

//@ func (*Int).Rem
//@ assumed
//@ requires[nopanic] z != nil && x != nil && y != nil && y.v != 0
//@ modifies z.v
//@ ensures z.v == trem(old(x.v), old(y.v)) && result == z && tdivfacts(old(x.v), old(y.v))

// Div and Mod: Euclidean division, panic on a zero divisor
//@ func (*Int).Div
//@ assumed
//@ requires[nopanic] z != nil && x != nil && y != nil && y.v != 0
//@ modifies z.v
//@ ensures z.v == ite(old(y.v) > 0, div(old(x.v), old(y.v)), -div(old(x.v), -old(y.v))) && result == z

//@ func (*Int).Mod
//@ assumed
//@ requires[nopanic] z != nil && x != nil && y != nil && y.v != 0
//@ modifies z.v
//@ ensures z.v == mod(old(x.v), abs(old(y.v))) && result == z

//@ func (*Int).Neg
//@ assumed
//@ requires[nopanic] z != nil && x != nil
//@ modifies z.v
//@ ensures z.v == -old(x.v) && result == z

//@ func (*Int).Abs
//@ assumed
//@ requires[nopanic] z != nil && x != nil
//@ modifies z.v
//@ ensures z.v == abs(old(x.v)) && result == z

//@ func (*Int).Not
//@ assumed
//@ requires[nopanic] z != nil && x != nil
//@ modifies z.v
//@ ensures z.v == -old(x.v) - 1 && result == z

//@ func (*Int).And
//@ assumed
//@ requires[nopanic] z != nil && x != nil && y != nil
//@ modifies z.v
//@ ensures z.v == bitand(old(x.v), old(y.v)) && result == z
//@ ensures in256(old(x.v)) && in256(old(y.v)) ==> in256(z.v)   // bitwise operations on 256-bit two's-complement numbers stay in range

//@ func (*Int).Or
//@ assumed
//@ requires[nopanic] z != nil && x != nil && y != nil
//@ modifies z.v
//@ ensures z.v == bitor(old(x.v), old(y.v)) && result == z
//@ ensures in256(old(x.v)) && in256(old(y.v)) ==> in256(z.v)   // bitwise operations on 256-bit two's-complement numbers stay in range

//@ func (*Int).Xor
//@ assumed
//@ requires[nopanic] z != nil && x != nil && y != nil
//@ modifies z.v
//@ ensures z.v == bitxor(old(x.v), old(y.v)) && result == z
//@ ensures in256(old(x.v)) && in256(old(y.v)) ==> in256(z.v)   // bitwise operations on 256-bit two's-complement numbers stay in range

// Lsh: x * 2^n; Rsh: floor(x / 2^n) (arithmetic shift, rounds towards minus infinity)
//@ func (*Int).Lsh
//@ assumed
//@ requires[nopanic] z != nil && x != nil
//@ modifies z.v
//@ ensures z.v == old(x.v) * pow2(n) && pow2(n) >= 1 && (n == 0 ==> pow2(n) == 1) && result == z

//@ func (*Int).Rsh
//@ assumed
//@ requires[nopanic] z != nil && x != nil
//@ modifies z.v
//@ ensures z.v == div(old(x.v), pow2(n)) && pow2(n) >= 1 && (n == 0 ==> pow2(n) == 1) && result == z

// Exp(x, y, m): m nil or zero: x**y (1 for y <= 0); otherwise x**y mod |m| in [0, |m|)
// (for y <= 0 with a modulus: 1 mod |m|; modular inverses for negative y are not used by callers here)
//@ func (*Int).Exp
//@ assumed
//@ requires[nopanic] z != nil && x != nil && y != nil
//@ modifies z.v
//@ ensures result == z
//@ ensures (m == nil || old(m.v) == 0) && old(y.v) > 0 ==> z.v == ipow(old(x.v), old(y.v))
//@ ensures (m == nil || old(m.v) == 0) && old(y.v) <= 0 ==> z.v == 1
// with a modulus the result is the Euclidean residue in [0, |m|): the truncated remainder, moved
// up by |m| when that is negative
//@ spec eucl(p int, m int) int = ite(trem(p, m) >= 0, trem(p, m), trem(p, m) + abs(m))
//@ ensures m != nil && old(m.v) != 0 && old(y.v) > 0 ==> z.v == eucl(ipow(old(x.v), old(y.v)), old(m.v)) && tdivfacts(ipow(old(x.v), old(y.v)), old(m.v))
//@ ensures m != nil && old(m.v) != 0 && old(y.v) == 0 ==> z.v == eucl(1, old(m.v)) && tdivfacts(1, old(m.v))
//@ ensures old(y.v) > 0 && old(x.v) > 0 ==> ipow(old(x.v), old(y.v)) > 0
//@ ensures old(y.v) > 0 && old(x.v) == 0 ==> ipow(old(x.v), old(y.v)) == 0
//@ ensures old(y.v) > 0 && old(x.v) < 0 && mod(old(y.v), 2) == 0 ==> ipow(old(x.v), old(y.v)) > 0
//@ ensures old(y.v) > 0 && old(x.v) < 0 && mod(old(y.v), 2) == 1 ==> ipow(old(x.v), old(y.v)) < 0

// Sqrt: floor of the square root; panics on a negative operand
//@ func (*Int).Sqrt
//@ assumed
//@ requires[nopanic] z != nil && x != nil && x.v >= 0
//@ modifies z.v
//@ ensures z.v >= 0 && z.v * z.v <= old(x.v) && old(x.v) < (z.v + 1) * (z.v + 1) && result == z

// ModInverse(g, n): nil when g and n are not relatively prime, else the inverse in [1, |n|)
//@ spec coprime(a int, b int) bool
// isInverse(r, g, n): r*g is congruent to 1 modulo |n| (uninterpreted: matched by name)
//@ spec isInverse(r int, g int, n int) bool
//@ func (*Int).ModInverse
//@ assumed
//@ requires[nopanic] z != nil && g != nil && n != nil
//@ modifies z.v
//@ ensures (result == nil) == !coprime(old(g.v), old(n.v))
//@ ensures result != nil ==> result == z && 0 <= z.v && z.v < abs(old(n.v)) && isInverse(z.v, old(g.v), old(n.v))

//@ func (*Int).Sign
//@ assumed
//@ pure
//@ requires[nopanic] x != nil
//@ ensures result == ite(x.v > 0, 1, ite(x.v < 0, -1, 0))

//@ func (*Int).Cmp
//@ assumed
//@ pure
//@ requires[nopanic] x != nil && y != nil
//@ ensures r == ite(x.v > y.v, 1, ite(x.v < y.v, -1, 0))

//@ func (*Int).IsInt64
//@ assumed
//@ pure
//@ requires[nopanic] x != nil
//@ ensures result == (-9223372036854775808 <= x.v && x.v <= 9223372036854775807)

//@ func (*Int).Int64
//@ assumed
//@ pure
//@ requires[nopanic] x != nil
//@ ensures -9223372036854775808 <= x.v && x.v <= 9223372036854775807 ==> result == x.v

//@ func (*Int).IsUint64
//@ assumed
//@ pure
//@ requires[nopanic] x != nil
//@ ensures result == (0 <= x.v && x.v <= 18446744073709551615)

//@ func (*Int).Uint64
//@ assumed
//@ pure
//@ requires[nopanic] x != nil
//@ ensures 0 <= x.v && x.v <= 18446744073709551615 ==> result == x.v

//@ func (*Int).Bit
//@ assumed
//@ pure
//@ requires[nopanic] x != nil && i >= 0
//@ ensures i == 0 ==> result == mod(x.v, 2)
//@ ensures result == 0 || result == 1

// BitLen: length of |x| in bits (0 for 0); only the two thresholds the VM uses are stated
//@ func (*Int).BitLen
//@ assumed
//@ pure
//@ requires[nopanic] x != nil
//@ ensures result >= 0 && (result <= 255) == (abs(x.v) < two255()) && (result <= 256) == (abs(x.v) < two256())

// TrailingZeroBits: number of consecutive zero bits at the low end of |x| (0 for 0)
//@ func (*Int).TrailingZeroBits
//@ assumed
//@ pure
//@ requires[nopanic] x != nil
//@ ensures result >= 0 && (x.v != 0 ==> (result >= 255) == (mod(abs(x.v), two255()) == 0)) && (x.v != 0 && abs(x.v) < two256() ==> result <= 255)

//@ func (*Int).CmpAbs
//@ assumed
//@ pure
//@ requires[nopanic] x != nil && y != nil
//@ ensures result == ite(abs(x.v) > abs(y.v), 1, ite(abs(x.v) < abs(y.v), -1, 0))
