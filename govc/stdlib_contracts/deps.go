//go:build ignore

package stdlib_contracts

//@ package github.com/mr-tron/base58
//@ import nb58 github.com/nspcc-dev/neo-go/pkg/encoding/base58
//@ func Decode
//@ assumed
//@ pure
//@ ensures result1 == nil ==> nb58.b58ok(str) && string(result0) == nb58.b58dec(str)
//@ ensures result1 != nil ==> !nb58.b58ok(str)
//@ ensures result1 == nil ==> fresh(result0)

//@ package github.com/nspcc-dev/neo-go/pkg/crypto/hash
//@ import nb58 github.com/nspcc-dev/neo-go/pkg/encoding/base58
//@ func Checksum
//@ assumed
//@ pure
//@ ensures len(result) == 4 && string(result) == nb58.cksum(data) && fresh(result)

//@ package encoding/hex
//@ func EncodeToString
//@ assumed
//@ pure
//@ func DecodeString
//@ assumed
//@ pure

//@ package sync/atomic
//@ func (*Bool).Load
//@ assumed
//@ pure
//@ func (*Value).Swap
//@ assumed
//@ pure
//@ func (*Value).Store
//@ assumed
//@ pure
//@ func (*Value).Load
//@ assumed
//@ pure
//@ func LoadUint32
//@ assumed
//@ pure

//@ package github.com/nspcc-dev/neo-go/pkg/vm/opcode
//@ func IsValid
//@ assumed
//@ pure
//@ func (Opcode).String
//@ assumed
//@ pure

//@ package math/bits
//@ func OnesCount32
//@ assumed
//@ pure
//@ ensures 0 <= result && result <= 32

//@ package github.com/nspcc-dev/neo-go/pkg/crypto/hash
//@ import util github.com/nspcc-dev/neo-go/pkg/util
//@ spec dsha(b seq) util.Uint256
//@ func DoubleSha256
//@ assumed
//@ pure
//@ ensures result == dsha(data)

// the decoded-key cache: an LRU map; its operations do not write memory the contracts talk about
//@ package github.com/hashicorp/golang-lru/v2
//@ func (*Cache[string, *github.com/nspcc-dev/neo-go/pkg/crypto/keys.PublicKey]).Add[string *github.com/nspcc-dev/neo-go/pkg/crypto/keys.PublicKey]
//@ assumed
//@ pure
//@ func (*Cache[string, *github.com/nspcc-dev/neo-go/pkg/crypto/keys.PublicKey]).Get[string *github.com/nspcc-dev/neo-go/pkg/crypto/keys.PublicKey]
//@ assumed
//@ pure

// lz4 block compression: the documented worst-case size of a compressed block (CompressBlock
// reports 0 bytes, not an error, when dst is smaller than that and the data does not shrink)
//@ package github.com/pierrec/lz4
//@ spec bound(n int) int
//@ func CompressBlockBound
//@ assumed
//@ pure
//@ ensures result == bound(n) && result >= n

// the JSON tokenizer advances its own state only
//@ package encoding/json
//@ func (*Decoder).Token
//@ assumed
//@ modifies *dec

//@ package sync/atomic
//@ func StoreUint32
//@ assumed
//@ requires[nopanic] addr != nil
//@ modifies *addr
//@ ensures *addr == val
