//go:build ignore

// Assumed contracts of io, fmt, errors. A Reader is modelled by the ghost byte
// sequence `in` it will deliver and the ghost position `pos` already consumed.
package stdlib_contracts

//@ package io
//@ ghost Reader.in seq
//@ ghost Reader.pos int
//@ ghost Writer.out seq

//@ func ReadFull
//@ assumed
//@ requires r != nil && 0 <= r.pos && r.pos <= len(r.in)
//@ modifies buf[0:len(buf)], r.pos
//@ ensures old(r.pos) + len(buf) <= len(r.in) ==> err == nil && result0 == len(buf) && r.pos == old(r.pos) + len(buf)
//@ ensures old(r.pos) + len(buf) <= len(r.in) ==> forall(k, 0, len(buf), buf[k] == r.in[old(r.pos)+k])
//@ ensures old(r.pos) + len(buf) > len(r.in) ==> err != nil && old(r.pos) <= r.pos && r.pos <= len(r.in)

//@ iface Writer.Write
//@ assumed
//@ modifies recv.out
//@ ensures err == nil ==> result0 == len(p) && len(recv.out) == old(len(recv.out)) + len(p)
//@ ensures err == nil ==> forall(k, 0, old(len(recv.out)), recv.out[k] == old(recv.out)[k])
//@ ensures err == nil ==> forall(k, 0, len(p), recv.out[old(len(recv.out)) + k] == p[k])
//@ ensures err != nil ==> len(recv.out) >= old(len(recv.out)) && forall(k, 0, old(len(recv.out)), recv.out[k] == old(recv.out)[k])

//@ package fmt
//@ func Errorf
//@ assumed
//@ pure
//@ ensures result != nil

//@ func Sprintf
//@ assumed
//@ pure

//@ package errors
//@ func New
//@ assumed
//@ pure
//@ ensures result != nil

//@ func Is
//@ assumed
//@ pure

//@ package stdlib
//@ iface error.Error
//@ assumed
//@ pure

//@ package bytes
//@ import io io
//@ func (*Reader).Len
//@ assumed
//@ pure
//@ requires r != nil
//@ ensures result == len(io.Reader(r).in) - io.Reader(r).pos
