//go:build ignore

// Assumed (trusted) contracts of encoding/binary byte-order helpers.
package stdlib_contracts

//@ package encoding/binary

//@ func (littleEndian).PutUint16
//@ assumed
//@ requires[nopanic] len(b) >= 2
//@ modifies b[0:2]
//@ ensures b[0] + b[1]*256 == v

//@ func (littleEndian).PutUint32
//@ assumed
//@ requires[nopanic] len(b) >= 4
//@ modifies b[0:4]
//@ ensures b[0] + b[1]*256 + b[2]*65536 + b[3]*16777216 == v

//@ func (littleEndian).PutUint64
//@ assumed
//@ requires[nopanic] len(b) >= 8
//@ modifies b[0:8]
//@ ensures b[0] + b[1]*256 + b[2]*65536 + b[3]*16777216 + b[4]*4294967296 + b[5]*1099511627776 + b[6]*281474976710656 + b[7]*72057594037927936 == v

//@ func (bigEndian).PutUint16
//@ assumed
//@ requires[nopanic] len(b) >= 2
//@ modifies b[0:2]
//@ ensures b[1] + b[0]*256 == v

//@ func (bigEndian).PutUint32
//@ assumed
//@ requires[nopanic] len(b) >= 4
//@ modifies b[0:4]
//@ ensures b[3] + b[2]*256 + b[1]*65536 + b[0]*16777216 == v

//@ func (littleEndian).Uint16
//@ assumed
//@ pure
//@ requires[nopanic] len(b) >= 2
//@ ensures result == b[0] + b[1]*256

//@ func (littleEndian).Uint32
//@ assumed
//@ pure
//@ requires[nopanic] len(b) >= 4
//@ ensures result == b[0] + b[1]*256 + b[2]*65536 + b[3]*16777216

//@ func (littleEndian).Uint64
//@ assumed
//@ pure
//@ requires[nopanic] len(b) >= 8
//@ ensures result == b[0] + b[1]*256 + b[2]*65536 + b[3]*16777216 + b[4]*4294967296 + b[5]*1099511627776 + b[6]*281474976710656 + b[7]*72057594037927936

//@ func (bigEndian).Uint16
//@ assumed
//@ pure
//@ requires[nopanic] len(b) >= 2
//@ ensures result == b[1] + b[0]*256

//@ func (bigEndian).Uint32
//@ assumed
//@ pure
//@ requires[nopanic] len(b) >= 4
//@ ensures result == b[3] + b[2]*256 + b[1]*65536 + b[0]*16777216

//@ func (bigEndian).Uint64
//@ assumed
//@ pure
//@ requires[nopanic] len(b) >= 8
//@ ensures result == b[7] + b[6]*256 + b[5]*65536 + b[4]*16777216 + b[3]*4294967296 + b[2]*1099511627776 + b[1]*281474976710656 + b[0]*72057594037927936
