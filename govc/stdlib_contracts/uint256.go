//go:build ignore

// Assumed value semantics of github.com/holiman/uint256 and math/big (abstract value of a big.Int).
package stdlib_contracts

//@ package github.com/holiman/uint256
//@ spec u256(x Int) int = x[0] + x[1]*18446744073709551616 + x[2]*340282366920938463463374607431768211456 + x[3]*6277101735386680763835789423207666416102355444464034512896
//@ spec two256() int = 115792089237316195423570985008687907853269984665640564039457584007913129639936
//@ spec bigval(b *big.Int) int

//@ func (*Int).SetUint64
//@ assumed
//@ requires z != nil
//@ modifies *z
//@ ensures u256(*z) == x && result == z

//@ func (*Int).Cmp
//@ assumed
//@ pure
//@ requires z != nil && x != nil
//@ ensures (r < 0) == (u256(*z) < u256(*x)) && (r == 0) == (u256(*z) == u256(*x)) && -1 <= r && r <= 1

//@ func (*Int).Add
//@ assumed
//@ requires z != nil && x != nil && y != nil
//@ modifies *z
//@ ensures u256(*z) == (old(u256(*x)) + old(u256(*y))) % two256() && result == z

//@ func (*Int).AddUint64
//@ assumed
//@ requires z != nil && x != nil
//@ modifies *z
//@ ensures u256(*z) == (old(u256(*x)) + y) % two256() && result == z

//@ func (*Int).SubUint64
//@ assumed
//@ requires z != nil && x != nil
//@ modifies *z
//@ ensures u256(*z) == (old(u256(*x)) - y) % two256() && result == z

//@ func (*Int).SetFromBig
//@ assumed
//@ requires z != nil && b != nil
//@ modifies *z
//@ ensures bigval(b) >= 0 ==> u256(*z) == bigval(b) % two256()

//@ func (*Int).GtUint64
//@ assumed
//@ pure
//@ requires z != nil
//@ ensures result == (u256(*z) > n)

//@ func NewInt
//@ assumed
//@ pure
//@ ensures result != nil && fresh(result) && u256(*result) == val
