//go:build ignore

package stdlib_contracts

//@ package stdlib
//@ spec lexlt(a seq, b seq) bool = exists(k, 0, min(len(a), len(b)) + 1, forall(j, 0, k, a[j] == b[j]) && ((k == len(a) && k < len(b)) || (k < len(a) && k < len(b) && a[k] < b[k])))

//@ package bytes
//@ func Compare
//@ assumed
//@ pure
//@ ensures -1 <= result && result <= 1
//@ ensures (result == 0) == (string(a) == string(b))
//@ ensures (result < 0) == lexlt(a, b)

//@ func Clone
//@ assumed
//@ pure
//@ ensures[nil] len(b) == 0 ==> len(result) == 0
//@ ensures[copy] (len(result) == 0 || fresh(result)) && len(result) == len(b) && forall(i, 0, len(b), result[i] == b[i])

//@ func Equal
//@ assumed
//@ pure
//@ ensures result == (string(a) == string(b))

//@ func HasPrefix
//@ assumed
//@ pure
//@ ensures result == (len(s) >= len(prefix) && forall(i, 0, len(prefix), s[i] == prefix[i]))

//@ package slices
//@ func Reverse[[]uint8 uint8]
//@ assumed
//@ modifies s[0:len(s)]
//@ ensures forall(i, 0, len(s), s[i] == old(s[len(s)-1-i]))

//@ package strings
//@ func HasPrefix
//@ assumed
//@ pure
//@ ensures result == (len(s) >= len(prefix) && forall(i, 0, len(prefix), s[i] == prefix[i]))

//@ package cmp
//@ func Compare[string]
//@ assumed
//@ pure
//@ ensures (result < 0) == lexlt(x, y)
//@ ensures (result == 0) == (x == y)
//@ ensures -1 <= result && result <= 1

// A clone of a map is a new map with the same entries (nil stays nil).
//@ package maps
//@ func Clone[*]
//@ assumed
//@ pure
//@ ensures[nil] (m == nil) == (result == nil)
//@ ensures[fresh] m != nil ==> fresh(result)
//@ ensures[same] m != nil ==> forallkeys(m, k, has(result, k) == has(m, k) && (has(m, k) ==> result[k] == m[k]))

// Concatenation into a new slice (nothing existing is written).
//@ package slices
//@ func Concat[*]
//@ assumed
//@ pure
//@ ensures len(result) == 0 || fresh(result)
//@ ensures[two] len(slices) == 2 ==> len(result) == len(slices[0]) + len(slices[1]) && forall(i, 0, len(slices[0]), result[i] == slices[0][i]) && forall(i, 0, len(slices[1]), result[len(slices[0]) + i] == slices[1][i])
//@ func Clone[*]
//@ assumed
//@ pure
//@ ensures (len(result) == 0 || fresh(result)) && len(result) == len(s) && forall(i, 0, len(s), result[i] == s[i])

// Binary search reads its arguments only; the position it reports is within the slice when found
// (what it finds is up to the comparison function and the order of the slice).
//@ package slices
//@ func BinarySearchFunc[*]
//@ assumed
//@ pure
//@ ensures 0 <= result0 && result0 <= len(x) && (result1 ==> result0 < len(x))
