#!/bin/bash
# builds the exporter offline from files on disk
set -e
cd "$(dirname "$0")/ssaexport"
export GOFLAGS=-mod=mod GOPROXY=off
unset GOTOOLCHAIN GOSUMDB
cp /repo/go.sum go.sum
mkdir -p ../bin
go build -o ../bin/ssaexport .
cd ..
python3-vt -m compileall -q vcgen >/dev/null
echo built
