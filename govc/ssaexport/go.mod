module govc/ssaexport

go 1.25.0

require (
	github.com/nspcc-dev/neo-go v0.0.0
	golang.org/x/tools v0.44.0
)

require (
	golang.org/x/mod v0.35.0 // indirect
	golang.org/x/sync v0.20.0 // indirect
)

replace github.com/nspcc-dev/neo-go => /repo
