// ssaexport: mechanical extraction of typed SSA (golang.org/x/tools/go/ssa) of
// selected functions of the working tree into JSON, for the vcgen verifier.
// Nothing is transcribed by hand: the SSA comes from the same sources and the
// same type checker the compiler uses.
package main

import (
	"crypto/sha256"
	"encoding/hex"
	"encoding/json"
	"flag"
	"fmt"
	"go/ast"
	"go/constant"
	"go/token"
	"go/types"
	"os"
	"sort"
	"strings"

	"golang.org/x/tools/go/packages"
	"golang.org/x/tools/go/ssa"
	"golang.org/x/tools/go/ssa/ssautil"
)

type J = map[string]any

type exporter struct {
	prog   *ssa.Program
	fset   *token.FileSet
	types  map[string]J
	sigs   map[string]J
	consts map[string]J
	modpfx string
}

func qual(p *types.Package) string { return p.Path() }

func (e *exporter) tstr(t types.Type) string {
	if t == nil {
		return ""
	}
	return types.TypeString(t, qual)
}

func (e *exporter) typ(t types.Type) string {
	if t == nil {
		return ""
	}
	t = types.Unalias(t)
	key := e.tstr(t)
	if _, ok := e.types[key]; ok {
		return key
	}
	d := J{}
	e.types[key] = d
	switch t := t.(type) {
	case *types.Basic:
		d["k"] = "basic"
		d["name"] = t.Name()
		info := t.Info()
		switch {
		case info&types.IsBoolean != 0:
			d["cls"] = "bool"
		case info&types.IsInteger != 0:
			d["cls"] = "int"
			d["signed"] = info&types.IsUnsigned == 0
			bits := 64
			switch t.Kind() {
			case types.Int8, types.Uint8:
				bits = 8
			case types.Int16, types.Uint16:
				bits = 16
			case types.Int32, types.Uint32:
				bits = 32
			}
			d["bits"] = bits
		case info&types.IsString != 0:
			d["cls"] = "string"
		case info&types.IsFloat != 0:
			d["cls"] = "float"
		case t.Kind() == types.UnsafePointer:
			d["cls"] = "unsafeptr"
		case t.Kind() == types.UntypedNil:
			d["cls"] = "nil"
		default:
			d["cls"] = "other"
		}
	case *types.Named:
		d["k"] = "named"
		obj := t.Obj()
		name := obj.Name()
		if obj.Pkg() != nil {
			name = obj.Pkg().Path() + "." + name
		}
		if t.TypeArgs() != nil && t.TypeArgs().Len() > 0 {
			name = key
		}
		d["name"] = name
		d["under"] = e.typ(t.Underlying())
		var ms []string
		for i := 0; i < t.NumMethods(); i++ {
			ms = append(ms, t.Method(i).Name())
		}
		d["methods"] = ms
	case *types.Pointer:
		d["k"] = "ptr"
		d["elem"] = e.typ(t.Elem())
	case *types.Slice:
		d["k"] = "slice"
		d["elem"] = e.typ(t.Elem())
	case *types.Array:
		d["k"] = "array"
		d["elem"] = e.typ(t.Elem())
		d["len"] = t.Len()
	case *types.Map:
		d["k"] = "map"
		d["key"] = e.typ(t.Key())
		d["elem"] = e.typ(t.Elem())
	case *types.Chan:
		d["k"] = "chan"
		d["elem"] = e.typ(t.Elem())
	case *types.Struct:
		d["k"] = "struct"
		var fs []J
		for i := 0; i < t.NumFields(); i++ {
			f := t.Field(i)
			fs = append(fs, J{"name": f.Name(), "type": e.typ(f.Type()), "embedded": f.Embedded()})
		}
		d["fields"] = fs
	case *types.Interface:
		d["k"] = "iface"
		var ms []J
		for i := 0; i < t.NumMethods(); i++ {
			m := t.Method(i)
			ms = append(ms, J{"name": m.Name(), "sig": e.typ(m.Type())})
		}
		d["methods"] = ms
	case *types.Signature:
		d["k"] = "sig"
		d["params"] = e.tuple(t.Params())
		d["results"] = e.tuple(t.Results())
		d["variadic"] = t.Variadic()
	case *types.Tuple:
		d["k"] = "tuple"
		d["elems"] = e.tuple(t)
	case *types.TypeParam:
		d["k"] = "typeparam"
	default:
		d["k"] = "unknown"
		d["go"] = fmt.Sprintf("%T", t)
	}
	return key
}

func (e *exporter) tuple(t *types.Tuple) []J {
	var r []J
	if t == nil {
		return r
	}
	for i := 0; i < t.Len(); i++ {
		r = append(r, J{"name": t.At(i).Name(), "type": e.typ(t.At(i).Type())})
	}
	return r
}

func fnKey(fn *ssa.Function) string {
	if fn == nil {
		return ""
	}
	var pkg *ssa.Package
	f := fn
	for f.Parent() != nil {
		f = f.Parent()
	}
	pkg = f.Pkg
	if pkg == nil && f.Origin() != nil {
		pkg = f.Origin().Pkg
	}
	if pkg == nil {
		// synthetic wrappers, bound methods etc.
		if o := fn.Object(); o != nil && o.Pkg() != nil {
			return o.Pkg().Path() + "::" + fn.RelString(o.Pkg())
		}
		return "::" + fn.String()
	}
	return pkg.Pkg.Path() + "::" + fn.RelString(pkg.Pkg)
}

func (e *exporter) pos(p token.Pos) J {
	if !p.IsValid() {
		return nil
	}
	pp := e.fset.Position(p)
	return J{"file": pp.Filename, "line": pp.Line, "col": pp.Column}
}

func (e *exporter) constVal(c *ssa.Const) J {
	r := J{"k": "const", "type": e.typ(c.Type())}
	if c.Value == nil {
		r["nil"] = true // zero value of the type
		return r
	}
	switch c.Value.Kind() {
	case constant.Bool:
		r["bool"] = constant.BoolVal(c.Value)
	case constant.String:
		s := constant.StringVal(c.Value)
		bs := []byte(s)
		arr := make([]int, len(bs))
		for i, b := range bs {
			arr[i] = int(b)
		}
		r["str"] = arr
	case constant.Int:
		r["int"] = c.Value.ExactString()
	case constant.Float:
		r["float"] = c.Value.ExactString()
	default:
		r["other"] = c.Value.ExactString()
	}
	return r
}

func (e *exporter) val(v ssa.Value) J {
	switch v := v.(type) {
	case nil:
		return nil
	case *ssa.Const:
		return e.constVal(v)
	case *ssa.Parameter:
		return J{"k": "param", "name": v.Name(), "type": e.typ(v.Type())}
	case *ssa.FreeVar:
		return J{"k": "freevar", "name": v.Name(), "type": e.typ(v.Type())}
	case *ssa.Global:
		n := v.Name()
		if v.Pkg != nil {
			n = v.Pkg.Pkg.Path() + "." + n
		}
		return J{"k": "global", "name": n, "type": e.typ(v.Type())}
	case *ssa.Function:
		e.noteSig(v)
		return J{"k": "func", "name": fnKey(v), "type": e.typ(v.Type())}
	case *ssa.Builtin:
		return J{"k": "builtin", "name": v.Name(), "type": e.typ(v.Type())}
	default:
		return J{"k": "reg", "name": v.Name(), "type": e.typ(v.Type())}
	}
}

func (e *exporter) vals(vs []ssa.Value) []J {
	r := make([]J, 0, len(vs))
	for _, v := range vs {
		r = append(r, e.val(v))
	}
	return r
}

func (e *exporter) noteSig(fn *ssa.Function) {
	k := fnKey(fn)
	if _, ok := e.sigs[k]; ok {
		return
	}
	d := J{"sig": e.typ(fn.Signature), "synthetic": fn.Synthetic}
	e.sigs[k] = d
	var ps []J
	for _, p := range fn.Params {
		ps = append(ps, J{"name": p.Name(), "type": e.typ(p.Type())})
	}
	if fn.Params == nil {
		// external function: take from signature
		if r := fn.Signature.Recv(); r != nil {
			ps = append(ps, J{"name": r.Name(), "type": e.typ(r.Type())})
		}
		for i := 0; i < fn.Signature.Params().Len(); i++ {
			p := fn.Signature.Params().At(i)
			ps = append(ps, J{"name": p.Name(), "type": e.typ(p.Type())})
		}
	}
	d["params"] = ps
	d["results"] = e.tuple(fn.Signature.Results())
	d["pos"] = e.pos(fn.Pos())
}

func (e *exporter) call(c *ssa.CallCommon) J {
	r := J{"args": e.vals(c.Args)}
	if c.IsInvoke() {
		r["invoke"] = c.Method.Name()
		r["recv"] = e.val(c.Value)
		r["iface"] = e.typ(c.Value.Type())
		r["msig"] = e.typ(c.Method.Type())
	} else {
		r["fn"] = e.val(c.Value)
	}
	return r
}

func (e *exporter) instr(in ssa.Instruction) J {
	d := J{}
	if v, ok := in.(ssa.Value); ok {
		d["name"] = v.Name()
		d["type"] = e.typ(v.Type())
	}
	if p := e.pos(in.Pos()); p != nil {
		d["pos"] = p
	}
	switch in := in.(type) {
	case *ssa.Alloc:
		d["op"] = "Alloc"
		d["heap"] = in.Heap
		d["comment"] = in.Comment
	case *ssa.BinOp:
		d["op"] = "BinOp"
		d["bop"] = in.Op.String()
		d["x"] = e.val(in.X)
		d["y"] = e.val(in.Y)
	case *ssa.UnOp:
		d["op"] = "UnOp"
		d["uop"] = in.Op.String()
		d["x"] = e.val(in.X)
		d["commaok"] = in.CommaOk
	case *ssa.Call:
		d["op"] = "Call"
		d["call"] = e.call(&in.Call)
	case *ssa.Defer:
		d["op"] = "Defer"
		d["call"] = e.call(&in.Call)
	case *ssa.Go:
		d["op"] = "Go"
		d["call"] = e.call(&in.Call)
	case *ssa.ChangeInterface:
		d["op"] = "ChangeInterface"
		d["x"] = e.val(in.X)
	case *ssa.ChangeType:
		d["op"] = "ChangeType"
		d["x"] = e.val(in.X)
	case *ssa.Convert:
		d["op"] = "Convert"
		d["x"] = e.val(in.X)
	case *ssa.MultiConvert:
		d["op"] = "MultiConvert"
		d["x"] = e.val(in.X)
	case *ssa.SliceToArrayPointer:
		d["op"] = "SliceToArrayPointer"
		d["x"] = e.val(in.X)
	case *ssa.DebugRef:
		d["op"] = "DebugRef"
		d["x"] = e.val(in.X)
		d["addr"] = in.IsAddr
		if id, ok := in.Expr.(*ast.Ident); ok {
			d["ident"] = id.Name
		}
	case *ssa.Extract:
		d["op"] = "Extract"
		d["x"] = e.val(in.Tuple)
		d["index"] = in.Index
	case *ssa.Field:
		d["op"] = "Field"
		d["x"] = e.val(in.X)
		d["field"] = in.Field
		d["fname"] = fieldName(in.X.Type(), in.Field)
	case *ssa.FieldAddr:
		d["op"] = "FieldAddr"
		d["x"] = e.val(in.X)
		d["field"] = in.Field
		d["fname"] = fieldName(in.X.Type(), in.Field)
	case *ssa.If:
		d["op"] = "If"
		d["cond"] = e.val(in.Cond)
	case *ssa.Index:
		d["op"] = "Index"
		d["x"] = e.val(in.X)
		d["index"] = e.val(in.Index)
	case *ssa.IndexAddr:
		d["op"] = "IndexAddr"
		d["x"] = e.val(in.X)
		d["index"] = e.val(in.Index)
	case *ssa.Jump:
		d["op"] = "Jump"
	case *ssa.Lookup:
		d["op"] = "Lookup"
		d["x"] = e.val(in.X)
		d["index"] = e.val(in.Index)
		d["commaok"] = in.CommaOk
	case *ssa.MakeChan:
		d["op"] = "MakeChan"
		d["size"] = e.val(in.Size)
	case *ssa.MakeClosure:
		d["op"] = "MakeClosure"
		d["fn"] = e.val(in.Fn)
		d["bindings"] = e.vals(in.Bindings)
	case *ssa.MakeInterface:
		d["op"] = "MakeInterface"
		d["x"] = e.val(in.X)
	case *ssa.MakeMap:
		d["op"] = "MakeMap"
		d["reserve"] = e.val(in.Reserve)
	case *ssa.MakeSlice:
		d["op"] = "MakeSlice"
		d["len"] = e.val(in.Len)
		d["cap"] = e.val(in.Cap)
	case *ssa.MapUpdate:
		d["op"] = "MapUpdate"
		d["map"] = e.val(in.Map)
		d["key"] = e.val(in.Key)
		d["value"] = e.val(in.Value)
	case *ssa.Next:
		d["op"] = "Next"
		d["iter"] = e.val(in.Iter)
		d["isstring"] = in.IsString
	case *ssa.Panic:
		d["op"] = "Panic"
		d["x"] = e.val(in.X)
	case *ssa.Phi:
		d["op"] = "Phi"
		d["comment"] = in.Comment
		d["edges"] = e.vals(in.Edges)
	case *ssa.Range:
		d["op"] = "Range"
		d["x"] = e.val(in.X)
	case *ssa.Return:
		d["op"] = "Return"
		d["results"] = e.vals(in.Results)
	case *ssa.RunDefers:
		d["op"] = "RunDefers"
	case *ssa.Select:
		d["op"] = "Select"
	case *ssa.Send:
		d["op"] = "Send"
		d["chan"] = e.val(in.Chan)
		d["x"] = e.val(in.X)
	case *ssa.Slice:
		d["op"] = "Slice"
		d["x"] = e.val(in.X)
		d["low"] = e.val(in.Low)
		d["high"] = e.val(in.High)
		d["max"] = e.val(in.Max)
	case *ssa.Store:
		d["op"] = "Store"
		d["addr"] = e.val(in.Addr)
		d["val"] = e.val(in.Val)
	case *ssa.TypeAssert:
		d["op"] = "TypeAssert"
		d["x"] = e.val(in.X)
		d["asserted"] = e.typ(in.AssertedType)
		d["commaok"] = in.CommaOk
	default:
		d["op"] = fmt.Sprintf("Unknown:%T", in)
	}
	return d
}

func fieldName(t types.Type, i int) string {
	t = types.Unalias(t)
	if p, ok := t.Underlying().(*types.Pointer); ok {
		t = p.Elem()
	}
	if s, ok := t.Underlying().(*types.Struct); ok && i < s.NumFields() {
		return s.Field(i).Name()
	}
	return fmt.Sprintf("#%d", i)
}

func (e *exporter) function(fn *ssa.Function) J {
	d := J{"name": fnKey(fn), "sig": e.typ(fn.Signature), "synthetic": fn.Synthetic}
	if p := e.pos(fn.Pos()); p != nil {
		d["pos"] = p
	}
	var ps []J
	for _, p := range fn.Params {
		ps = append(ps, J{"name": p.Name(), "type": e.typ(p.Type())})
	}
	d["params"] = ps
	var fvs []J
	for _, p := range fn.FreeVars {
		fvs = append(fvs, J{"name": p.Name(), "type": e.typ(p.Type())})
	}
	d["freevars"] = fvs
	d["results"] = e.tuple(fn.Signature.Results())
	if fn.Signature.Recv() != nil {
		d["recv"] = true
	}
	var anon []string
	for _, a := range fn.AnonFuncs {
		anon = append(anon, fnKey(a))
	}
	d["anon"] = anon
	h := sha256.New()
	var blocks []J
	for _, b := range fn.Blocks {
		bd := J{"idx": b.Index, "comment": b.Comment}
		var preds, succs []int
		for _, p := range b.Preds {
			preds = append(preds, p.Index)
		}
		for _, s := range b.Succs {
			succs = append(succs, s.Index)
		}
		bd["preds"] = preds
		bd["succs"] = succs
		var ins []J
		for _, in := range b.Instrs {
			ins = append(ins, e.instr(in))
			fmt.Fprintf(h, "%s\n", in.String())
		}
		bd["instrs"] = ins
		blocks = append(blocks, bd)
	}
	d["blocks"] = blocks
	if fn.Recover != nil {
		d["recover"] = fn.Recover.Index
	}
	d["ssahash"] = hex.EncodeToString(h.Sum(nil))[:16]
	// named results (for contracts that mention them)
	if syn, ok := fn.Syntax().(*ast.FuncDecl); ok && syn.Type.Results != nil {
		var names []string
		for _, f := range syn.Type.Results.List {
			for _, n := range f.Names {
				names = append(names, n.Name)
			}
		}
		d["resultnames"] = names
	}
	if syn := fn.Syntax(); syn != nil {
		d["endline"] = e.fset.Position(syn.End()).Line
	}
	return d
}

func main() {
	tags := flag.String("tags", "verif", "build tags")
	dir := flag.String("dir", "/repo", "module dir")
	out := flag.String("out", "-", "output file")
	funcs := flag.String("funcs", "", "comma separated pkgpath::RelName list ('pkgpath::*' for all)")
	funcsFile := flag.String("funcs-file", "", "file with one function key per line")
	tests := flag.Bool("tests", false, "load tests")
	flag.Parse()
	want := map[string]bool{}
	wantAll := map[string]bool{}
	add := func(f string) {
		f = strings.TrimSpace(f)
		if f == "" {
			return
		}
		if strings.HasSuffix(f, "::*") {
			wantAll[strings.TrimSuffix(f, "::*")] = true
		} else {
			want[f] = true
		}
	}
	for _, f := range strings.Split(*funcs, ",") {
		add(f)
	}
	if *funcsFile != "" {
		b, err := os.ReadFile(*funcsFile)
		if err != nil {
			fmt.Fprintln(os.Stderr, err)
			os.Exit(2)
		}
		for _, f := range strings.Split(string(b), "\n") {
			add(f)
		}
	}
	cfg := &packages.Config{
		Mode:       packages.LoadAllSyntax,
		Dir:        *dir,
		BuildFlags: []string{"-tags=" + *tags},
		Tests:      *tests,
	}
	pkgs, err := packages.Load(cfg, flag.Args()...)
	if err != nil {
		fmt.Fprintln(os.Stderr, "load:", err)
		os.Exit(2)
	}
	nerr := 0
	packages.Visit(pkgs, nil, func(p *packages.Package) {
		for _, er := range p.Errors {
			fmt.Fprintln(os.Stderr, "pkg error:", er)
			nerr++
		}
	})
	if nerr > 0 {
		os.Exit(3)
	}
	prog, spkgs := ssautil.AllPackages(pkgs, ssa.InstantiateGenerics|ssa.GlobalDebug)
	prog.Build()
	e := &exporter{prog: prog, fset: prog.Fset, types: map[string]J{}, sigs: map[string]J{}, consts: map[string]J{}}
	fnsOut := J{}
	found := map[string]bool{}
	var visit func(fn *ssa.Function, all bool)
	visit = func(fn *ssa.Function, all bool) {
		k := fnKey(fn)
		if all || want[k] {
			if fn.Blocks != nil {
				fnsOut[k] = e.function(fn)
				e.noteSig(fn)
				found[k] = true
			}
		}
		for _, a := range fn.AnonFuncs {
			visit(a, all || want[k])
		}
	}
	_ = spkgs
	for _, sp := range prog.AllPackages() {
		if sp == nil {
			continue
		}
		path := sp.Pkg.Path()
		interesting := false
		if wantAll[path] {
			interesting = true
		}
		for k := range want {
			if strings.HasPrefix(k, path+"::") {
				interesting = true
			}
		}
		// constants and globals of every package of the module (and of contracted dependencies)
		inModule := strings.HasPrefix(path, "github.com/nspcc-dev/") || interesting
		for name, m := range sp.Members {
			if !inModule {
				break
			}
			switch m := m.(type) {
			case *ssa.NamedConst:
				c := e.constVal(m.Value)
				e.consts[path+"."+name] = c
			case *ssa.Global:
				e.consts[path+"."+name] = J{"k": "global", "type": e.typ(m.Type())}
			case *ssa.Type:
				e.typ(m.Type())
			}
		}
		if !interesting {
			continue
		}
		for _, m := range sp.Members {
			switch m := m.(type) {
			case *ssa.Function:
				visit(m, wantAll[path])
			case *ssa.Type:
				for _, t := range []types.Type{m.Type(), types.NewPointer(m.Type())} {
					ms := prog.MethodSets.MethodSet(t)
					for i := 0; i < ms.Len(); i++ {
						fn := prog.MethodValue(ms.At(i))
						if fn != nil && fn.Synthetic == "" {
							visit(fn, wantAll[path])
						}
					}
				}
			}
		}
	}
	var missing []string
	for k := range want {
		if !found[k] {
			missing = append(missing, k)
		}
	}
	sort.Strings(missing)
	res := J{"funcs": fnsOut, "types": e.types, "sigs": e.sigs, "consts": e.consts, "missing": missing}
	var w *os.File = os.Stdout
	if *out != "-" {
		w, err = os.Create(*out)
		if err != nil {
			fmt.Fprintln(os.Stderr, err)
			os.Exit(2)
		}
		defer w.Close()
	}
	enc := json.NewEncoder(w)
	if err := enc.Encode(res); err != nil {
		fmt.Fprintln(os.Stderr, err)
		os.Exit(2)
	}
}
